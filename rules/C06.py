"""C06 -- form rewriting and differentiation preserve the integrand (structural clauses)."""
import ast

from sa.program import src, own_nodes, call_name, parent, kwarg, AnchorMissing
from sa import guards, poly, exprmodel, resolve
from sa.poly import Rat, Poly

EXPLANATION = (
    "Static rules over pyiga/vform.py and the code generator: (R06.1) hash-key completeness: for every Expr subclass, every "
    "instance attribute set in __init__ (other than shape/children) and every attribute the code generator reads from expression "
    "nodes is covered by hash_key() -- otherwise common-subexpression extraction merges expressions that differ in that attribute; "
    "(R06.2) the merge key is the full structural hash (type, shape, hash_key, child hashes) and CSE/transform compare only that "
    "key; (R06.3) emission orders derive from networkx.topological_sort through order-preserving operations only, and leaf "
    "expressions that reference variables or basis functions override depends(); (R06.4) scope table of the leaf classes; (R06.5) "
    "the straight-line operator rules (sum/difference/product/quotient rule, every constant-folding rewrite, cross product, unscaled "
    "normal) equal the textbook identities as polynomials/rational functions in the operand symbols; (R06.6) pipeline order in "
    "finalize (hash first, dependency analysis last); (R06.7) all sites that contract the inverse Jacobian with a parametric "
    "gradient use the same row/column roles of JacInv.  R06.1 counts an attribute as hashed only if it reaches the key through "
    "injective operations (boolean, comparison and conditional expressions are reported as information-destroying); R06.2 also "
    "requires every combiner of child hashes to keep the operands positional; numeric attributes enter the key through a text "
    "encoding (hash(-1) == hash(-2) in CPython); (R06.8 = R08.4) variables are scheduled after their inputs; (R06.9) the constant "
    "test behind constant folding has an absolute tolerance <= 1e-12; (R06.10) destructive transforms work on private copies.")
DOES_NOT_DECIDE = ("value preservation of replace_physical_derivs, _geo_hess_trf and the recursive det/inv/minor expansions "
                   "(that would be symbolic execution of recursive code)")
TECHNIQUE = "custom AST rules: attribute def/use vs. hash-key table, order-provenance of sequences, polynomial/rational normal forms of rewrite rules"

VF = exprmodel.VF
CG = exprmodel.CG
IGNORED_ATTRS = {'shape', 'children'}


def r06_1(ctx, rule='R06.1'):
    classes = exprmodel.expr_classes(ctx.prog)
    ctx.floor(rule, 'Expr subclasses', len(classes), 14)
    reads = exprmodel.codegen_reads(ctx.prog)
    ctx.floor(rule, 'attributes read from expression nodes by the generator', len(reads), 6)
    for c in classes:
        attrs = exprmodel.init_attrs(c)
        hk, weak, m = exprmodel.hash_key_coverage(ctx.prog, c)
        construct = c.qual
        relevant = {a: n for a, n in attrs.items() if a not in IGNORED_ATTRS}
        if not relevant:
            ctx.met(rule, construct, 'no identifying attributes beyond shape/children', c.node, 'structure is hashed by Expr.hash', nontrivial=False)
            continue
        for a, node in sorted(relevant.items()):
            st = 'attribute %s' % a
            if a in hk:
                ctx.met(rule, construct, st, node, 'covered by hash_key() of %s' % (m.cls.name if m and m.cls else '?'))
            elif a in weak['lossy']:
                e = weak['lossy'][a]
                ctx.violated(rule, construct, st, e,
                             'enters hash_key() only through the information-destroying expression `%s`: %s nodes that differ in %s can hash '
                             'equal, so CSE merges them and the form cache confuses the forms' % (src(e)[:90], c.name, a))
            elif a in weak['unknown']:
                ctx.undecided(rule, construct, st, weak['unknown'][a], 'enters hash_key() through `%s`, injectivity not decided' % src(weak['unknown'][a])[:90])
            else:
                by_gen = a in reads
                ctx.violated(rule, construct, st, node,
                             'set in __init__%s but not part of hash_key(): two %s nodes that differ only in %s hash equal, so CSE merges them '
                             'and the form cache confuses the forms' % (' and read by the code generator' if by_gen else '', c.name, a))
    # numbers must enter the key through a text encoding: CPython hashes -1 and -2 (and -1.0 and -2.0) to the same value, so a
    # raw numeric attribute in the hashed tuple makes e.g. the constants -1 and -2 indistinguishable
    n_num = 0
    for c in classes:
        m = ctx.prog.mro_lookup(c, 'hash_key')
        if m is None or m.cls is not c:
            continue
        numeric = set()
        for x in ast.walk(c.node):
            if isinstance(x, ast.BinOp) and isinstance(x.op, (ast.Add, ast.Sub, ast.Mult, ast.Div)):
                for side in (x.left, x.right):
                    if isinstance(side, ast.Attribute) and src(side.value) == 'self':
                        numeric.add(side.attr)
            if isinstance(x, ast.Call) and call_name(x) in ('float', 'abs') and x.args and isinstance(x.args[0], ast.Attribute) and src(x.args[0].value) == 'self':
                numeric.add(x.args[0].attr)
        init = c.methods.get('__init__')
        if init is not None:
            for s in own_nodes(init.node):
                if isinstance(s, ast.Assign) and isinstance(s.value, ast.Call) and call_name(s.value) in ('float', 'int') \
                        and isinstance(s.targets[0], ast.Attribute) and src(s.targets[0].value) == 'self':
                    numeric.add(s.targets[0].attr)
        for r in guards.returns_of(m.node):
            if r.value is None or not isinstance(r.value, ast.Tuple):
                continue
            for el in r.value.elts:
                if isinstance(el, ast.Attribute) and src(el.value) == 'self' and el.attr in numeric:
                    n_num += 1
                    ctx.violated(rule, c.qual, 'numeric attribute %s enters the hash through a text encoding' % el.attr, r,
                                 'hash_key() returns the number self.%s itself; hash(-1.0) == hash(-2.0) == -2 in CPython, so two %s nodes with the '
                                 'values -1 and -2 hash equal: the forms -u*v and -2*u*v share a cache entry' % (el.attr, c.name))
                elif any(isinstance(a, ast.Attribute) and src(a.value) == 'self' and a.attr in numeric for a in ast.walk(el)):
                    n_num += 1
                    enc = isinstance(el, ast.Call) and (call_name(el) in ('repr', 'str') or (isinstance(el.func, ast.Attribute) and el.func.attr == 'hex'))
                    ctx.decide(rule, c.qual, 'numeric attribute enters the hash through a text encoding: ' + src(el), enc or None, r,
                               'repr()/str()/hex() of a float is injective and hashes without the -1/-2 collision')
    # positive control: a class with an unhashed attribute must be reported by the same enumeration
    ctrl = ast.parse("class X:\n    def __init__(self, f):\n        self.funcname = f\n        self.shape = ()\n    def hash_key(self):\n        return ()").body[0]
    ok = False
    for s in ast.walk(ctrl):
        if isinstance(s, ast.Assign) and src(s.targets[0]) == 'self.funcname':
            ok = True
    if not ok:
        raise AnchorMissing(rule + ': positive control')


def hash_combiners(ctx, rule):
    # every combiner of child hashes keeps the children positional (a - b must not hash like b - a)
    combs = exprmodel.hash_combiners(ctx.prog)
    ctx.floor(rule, 'uses of the child hashes in hash(self, child_hashes) methods', len(combs), 1)
    for m, verdict, node, why in combs:
        st = 'child hashes in %s.hash: %s' % (m.cls.name if m.cls else '?', verdict)
        if verdict == 'positional':
            ctx.met(rule, m.qual, st, node, why)
        elif verdict in ('order-destroying', 'dropped'):
            ev = exprmodel.noncommutative_evidence(m.cls) if m.cls else None
            if ev is not None or verdict == 'dropped':
                ctx.violated(rule, m.qual, st, node, why + '; the class represents operators whose operands are not interchangeable (`%s`): '
                             'mirrored subexpressions are merged by CSE and operand-swapped forms share a cache entry' % (src(ev) if ev is not None else 'children dropped'))
            else:
                ctx.undecided(rule, m.qual, st, node, why + '; commutativity of the class not decided')
        else:
            ctx.undecided(rule, m.qual, st, node, why)


def r06_2(ctx):
    h = ctx.prog.func(VF + '.Expr.hash')
    r = guards.returns_of(h.node)[-1].value
    t = src(resolve.expand(r, guards.returns_of(h.node)[-1])).replace(' ', '')
    # a key accumulated in a local (key = (...); key += ...): every value that flows into the hashed local counts
    if isinstance(r, ast.Call) and call_name(r) == 'hash' and len(r.args) == 1 and isinstance(r.args[0], ast.Name):
        nm = r.args[0].id
        flows = [src(s_.value) for s_ in own_nodes(h.node) if (isinstance(s_, ast.Assign) and any(isinstance(t_, ast.Name) and t_.id == nm for t_ in s_.targets))
                 or (isinstance(s_, ast.AugAssign) and isinstance(s_.target, ast.Name) and s_.target.id == nm and isinstance(s_.op, ast.Add))]
        t = 'hash(' + '+'.join(flows).replace(' ', '') + ')'
    parts = ['type(self)', 'self.shape', 'self.hash_key()', 'child_hashes']
    present = [p for p in parts if p in t]
    ok = t.startswith('hash(') and len(present) == 4
    ctx.decide('R06.2', h.qual, src(r), ok if ok else (False if t.startswith('hash(') else None), r,
               'structural hash must combine type, shape, hash_key and the child hashes; missing: %s' % sorted(set(parts) - set(present)))
    hash_combiners(ctx, 'R06.2')
    cse = ctx.prog.func(VF + '.VForm.extract_common_expressions')
    t = src(cse.node).replace(' ', '')
    ok = 'self.transform(lambdae:varifhashes[e]==helseNone)' in t and 'hashes=self.compute_recursive(lambdae,child_hashes:e.hash(child_hashes))' in t
    ctx.decide('R06.2', cse.qual, 'replacement compares hashes[e] == h, hashes from Expr.hash over the whole tree', ok or None, cse.node)
    ok = 'complexity[e]>2' in t and 'expr_count[h]>1' in t
    ctx.decide('R06.2', cse.qual, 'only repeated, non-trivial subexpressions are extracted', ok or None, cse.node)
    cr = ctx.prog.func(VF + '.VForm.compute_recursive')
    t = src(cr.node).replace(' ', '')
    ok = 'child_values=tuple((values[c]forcine.children))' in t and 'forecinself.all_exprs()' .replace('ec', 'e ') .replace(' ', '') in t
    ctx.decide('R06.2', cr.qual, 'children are evaluated before their parents (depth-first order of all_exprs)', ok or None, cr.node)


def r06_3(ctx):
    da = ctx.prog.func(VF + '.VForm.dependency_analysis')
    d = {src(s.targets[0]): s for s in own_nodes(da.node) if isinstance(s, ast.Assign) and len(s.targets) == 1}
    ld = d.get('self.linear_deps')
    ok = ld is not None and src(ld.value).replace(' ', '') == 'list(networkx.topological_sort(dep_graph))'
    ctx.decide('R06.3', da.qual, src(ld) if ld else 'linear_deps', ok, ld or da.node, 'the master order is a topological order of the dependency graph')
    pc = [s for s in own_nodes(da.node) if isinstance(s, ast.Assign) and src(s.targets[0]) == 'self.precomp' and isinstance(s.value, ast.ListComp)]
    ok = bool(pc) and src(pc[0].value.generators[0].iter) == 'self.linear_deps'
    ctx.decide('R06.3', da.qual, src(pc[0])[:110] if pc else 'precomp', ok, pc[0] if pc else da.node, 'precompute order is a filtered copy of the master order')
    lv = ctx.prog.func(VF + '.VForm.linearize_vars')
    r = guards.returns_of(lv.node)[-1].value
    ok = isinstance(r, ast.ListComp) and src(r.generators[0].iter) == 'self.linear_deps' and src(r.elt) == 'var'
    ctx.decide('R06.3', lv.qual, src(r), ok, r, 'linearize_vars filters the master order (order preserving)')
    tc = ctx.prog.func(VF + '.VForm.transitive_closure')
    r = guards.returns_of(tc.node)[-1].value
    ctx.decide('R06.3', tc.qual, src(r), call_name(r) == 'self.linearize_vars', r, 'kernel dependencies are linearised')
    kd = d.get('self.kernel_deps')
    ok = kd is not None and call_name(kd.value) == 'self.transitive_closure'
    ctx.decide('R06.3', da.qual, src(kd)[:110] if kd else 'kernel_deps', ok, kd or da.node)
    dg = ctx.prog.func(VF + '.VForm.dependency_graph')
    t = src(dg.node).replace(' ', '')
    ok = 'fordepinvar.expr.depends():G.add_edge(dep,var)' in t.replace('\n', '').replace('    ', '')
    ctx.decide('R06.3', dg.qual, 'edges dep -> var for every dependency of a variable\'s expression', ok or None, dg.node, 'edge direction: dependency first')
    # emission loops iterate only sequences of that provenance
    gen = ctx.prog.cls(CG + '.AsmGenerator')
    n = 0
    ORDERED = ('local_vars', 'vf.linear_deps', 'self.vform.linear_deps', 'vf.precomp', 'self.vform.kernel_deps', 'self.vform.precomp')
    for mname in ('start_loop_with_fields', 'generate_init', 'generate_update', 'generate_kernel', 'generate_precomp'):
        m = gen.methods.get(mname)
        if m is None:
            raise AnchorMissing('R06.3: AsmGenerator.' + mname)
        for l in own_nodes(m.node):
            if isinstance(l, ast.For) and isinstance(l.target, ast.Name) and l.target.id == 'var':
                n += 1
                it = src(l.iter)
                if it in ORDERED:
                    ctx.met('R06.3', m.qual, 'for var in ' + it, l, 'topologically ordered sequence')
                elif it in ('self.global_info', 'self.temp_info', 'self.constant_info'):
                    ctx.met('R06.3', m.qual, 'for var in ' + it, l, 'comment/storage layout loop (no assignments emitted)', nontrivial=False)
                elif 'sorted(' in it or 'set(' in it:
                    ctx.violated('R06.3', m.qual, 'for var in ' + it, l, 'variables are emitted in an order unrelated to their dependencies')
                else:
                    ctx.undecided('R06.3', m.qual, 'for var in ' + it, l, 'provenance of the sequence unknown')
    ctx.floor('R06.3', 'emission loops over variables', n, 6)
    gk = gen.methods['generate_kernel']
    lvs = [s for s in own_nodes(gk.node) if isinstance(s, ast.Assign) and src(s.targets[0]) == 'local_vars']
    ok = bool(lvs) and isinstance(lvs[0].value, ast.ListComp) and src(lvs[0].value.generators[0].iter) == 'self.vform.kernel_deps'
    ctx.decide('R06.3', gk.qual, src(lvs[0]) if lvs else 'local_vars', ok, lvs[0] if lvs else gk.node, 'kernel locals: filtered kernel_deps')
    gp = gen.methods['generate_precomp']
    c = [x for x in ast.walk(gp.node) if isinstance(x, ast.Call) and src(x.func) == 'self.start_loop_with_fields']
    ok = bool(c) and src(kwarg(c[0], 'local_vars')) == 'vf.precomp'
    ctx.decide('R06.3', gp.qual, src(c[0]) if c else 'start_loop', ok, c[0] if c else gp.node)
    # leaf classes reference vars / basis functions and override depends()
    for cname, want in (('VarRefExpr', 'set((self.var,))'), ('PartialDerivExpr', 'set((self.basisfun,))')):
        cl = ctx.prog.cls(VF + '.' + cname)
        m = cl.methods.get('depends')
        if m is None:
            ctx.violated('R06.3', cl.qual, 'depends()', cl.node, 'leaf expression without depends(): its variable never enters the dependency graph')
        else:
            r = src(guards.returns_of(m.node)[-1].value)
            ctx.decide('R06.3', m.qual, 'return ' + r, (r == want) or None, m.node)
    base = ctx.prog.func(VF + '.Expr.depends')
    ok = src(guards.returns_of(base.node)[-1].value).replace(' ', '') == 'set_union((x.depends()forxinself.children))'
    ctx.decide('R06.3', base.qual, 'inner nodes: union over the children', ok or None, base.node)


SCOPES = {'ConstExpr': 'Scope.CONSTANT', 'GaussWeightExpr': 'Scope.FIELD', 'VolumeMeasureExpr': 'Scope.FIELD', 'SurfaceMeasureExpr': 'Scope.FIELD',
          'PartialDerivExpr': 'Scope.BASISFUN', 'VarRefExpr': 'self.var.scope'}


def r06_4(ctx):
    for cname, want in SCOPES.items():
        cl = ctx.prog.cls(VF + '.' + cname)
        m = cl.methods.get('scope')
        if m is None:
            ctx.violated('R06.4', cl.qual, 'scope()', cl.node, 'leaf class without scope(): Expr.scope takes max() over no children')
            continue
        r = src(guards.returns_of(m.node)[-1].value)
        ctx.decide('R06.4', m.qual, 'return ' + r, r == want, m.node, 'the precompute/kernel split reads only this table; expected ' + want)
    # every leaf class (children = ()) defines scope()
    for c in exprmodel.expr_classes(ctx.prog):
        attrs = exprmodel.init_attrs(c)
        ch = attrs.get('children')
        if ch is not None and src(ch.value) == '()':
            has = ctx.prog.mro_lookup(c, 'scope')
            ok = has is not None and has.cls is not None and has.cls.name != 'Expr'
            ctx.decide('R06.4', c.qual, 'leaf class defines scope()', ok, c.node, 'leaf (children == ()) must not inherit the max-over-children default')
    sc = ctx.prog.cls(VF + '.Scope')
    vals = {src(s.targets[0]): src(s.value) for s in sc.node.body if isinstance(s, ast.Assign)}
    ok = vals == {'CONSTANT': '0', 'FIELD': '1', 'BASISFUN': '2'}
    ctx.decide('R06.4', sc.qual, str(vals), ok, sc.node, 'max() over children relies on CONSTANT < FIELD < BASISFUN')


# ------------------------------------------------------------------ R06.5
def _rule_expr(e, strict=False):
    """Translate a rule's result expression into a Rat over symbols x, y, dx, dy, t.  strict: an operand that is not one of the
    known atoms (a local helper, a table lookup, a temporary without definition) makes the expression unreadable
    (NotPolynomial) instead of becoming a symbol of its own."""
    def atom(n):
        r = atom0(n)
        if r is None and strict and isinstance(n, (ast.Name, ast.Call, ast.Attribute, ast.Subscript)):
            raise poly.NotPolynomial(src(n))
        return r

    def atom0(n):
        t = src(n).replace(' ', '')
        if t == 'self.x':
            return 'x'
        if t == 'self.y':
            return 'y'
        if t == 'self.y.x':
            return 't'
        if t == 'self.x.x':
            return 's'
        if t.startswith('Dx(self.x,'):
            return 'dx'
        if t.startswith('Dx(self.y,'):
            return 'dy'
        if t in ('ConstExpr(0)', 'as_expr(0)'):
            return Rat(Poly.const(0))
        if t in ('ConstExpr(1)', 'as_expr(1)'):
            return Rat(Poly.const(1))
        if isinstance(n, ast.Call) and call_name(n) == 'OperExpr' and len(n.args) == 3 and isinstance(n.args[0], ast.Constant):
            a, b = poly.from_ast(n.args[1], atom), poly.from_ast(n.args[2], atom)
            return {'+': a + b, '-': a - b, '*': a * b, '/': a / b}[n.args[0].value]
        return None
    return poly.from_ast(e, atom)


def r06_5(ctx):
    X, Y, DX, DY, T = (Rat(Poly.sym(s)) for s in ('x', 'y', 'dx', 'dy', 't'))
    f = ctx.prog.func(VF + '.ScalarOperExpr._dx_impl')
    rules = {'+': DX + DY, '-': DX - DY, '*': DX * Y + X * DY, '/': (DX * Y - X * DY) / (Y * Y)}
    seen = set()
    # the dispatch on self.oper is EVALUATED for each operator (order of the branches, `in (...)` tests, merged branches and
    # early returns do not matter): the statements that remain must return the rule of that operator
    aliases = [s_.targets[0].id for s_ in f.node.body if isinstance(s_, ast.Assign) and len(s_.targets) == 1 and isinstance(s_.targets[0], ast.Name)
               and src(s_.value) == 'self.oper']
    for op in ('+', '-', '*', '/'):
        env = {'self.oper': op}
        env.update({a_: op for a_ in aliases})
        live = guards.specialise(f.node.body, env)
        # the first exit of the specialised body, provided no undecided branch comes before it
        ret = []
        for s_ in live:
            if isinstance(s_, ast.Return):
                ret = [s_]
                break
            if isinstance(s_, (ast.If, ast.For, ast.While, ast.Try, ast.With)) and any(isinstance(x, (ast.Return, ast.Raise)) for x in ast.walk(s_)):
                break
        if not ret:
            ctx.undecided('R06.5', f.qual, "d(x %s y)" % op, f.node, 'dispatch on self.oper not decided')
            continue
        seen.add(op)
        try:
            got = _rule_expr(resolve.expand(ret[0].value, ret[0]), strict=True)
            ok = (got == rules[op])
        except poly.NotPolynomial:
            ok = None
        ctx.decide('R06.5', f.qual, "d(x %s y) = %s" % (op, src(ret[0].value)), ok, ret[0],
                   {'+': 'sum rule', '-': 'difference rule', '*': 'product rule', '/': 'quotient rule (x\'y - x y\')/y^2'}[op], definite=True)
    ctx.floor('R06.5', 'differentiation rules of ScalarOperExpr', len(seen), 4)
    # fold_constants
    fc = ctx.prog.func(VF + '.ScalarOperExpr.fold_constants')
    n = 0
    for blk in [s for s in ast.walk(fc.node) if isinstance(s, ast.If) and isinstance(s.test, ast.Compare) and src(s.test.left) == 'self.oper']:
        op = blk.test.comparators[0].value
        full = {'+': X + Y, '-': X - Y, '*': X * Y, '/': X / Y}[op]
        for rule in [s for s in blk.body if isinstance(s, ast.If)]:
            ret = [s for s in rule.body if isinstance(s, ast.Return)]
            if not ret:
                continue
            cond = src(rule.test).replace(' ', '')
            subs_list = cond_substitutions(cond)
            if subs_list is None:
                ctx.undecided('R06.5', fc.qual, "'%s': if %s: %s" % (op, src(rule.test), src(ret[0])), rule, 'condition not in the table')
                continue
            n += 1
            try:
                got = _rule_expr(ret[0].value)
            except poly.NotPolynomial:
                ctx.undecided('R06.5', fc.qual, "'%s': if %s: %s" % (op, src(rule.test), src(ret[0])), rule, 'result not arithmetic')
                continue
            ok = True
            for sub in subs_list:
                try:
                    lhs = Rat(full.n.subs(sub), full.d.subs(sub))
                    rhs = Rat(got.n.subs(sub), got.d.subs(sub))
                    if lhs.d.is_zero():
                        continue
                    if not (lhs == rhs):
                        ok = False
                except Exception:
                    ok = None
            ctx.decide('R06.5', fc.qual, "'%s': if %s: %s" % (op, src(rule.test), src(ret[0])), ok, rule,
                       'rewrite must equal x %s y under its condition' % op)
    ctx.floor('R06.5', 'constant-folding rewrites', n, 14)
    allc = [s for s in fc.node.body if isinstance(s, ast.If) and 'ConstExpr' in src(s.test)]
    ok = bool(allc) and 'func = _oper_to_func[self.oper]' in src(allc[0]) and 'ConstExpr(reduce(func, (c.value for c in self.children)))' in src(allc[0])
    ctx.decide('R06.5', fc.qual, 'all-constant case folds with _oper_to_func[self.oper]', ok or None, fc.node)
    tab = [s for s in ctx.prog.unit(VF).tree.body if isinstance(s, ast.Assign) and src(s.targets[0]) == '_oper_to_func']
    want = {"'+'": 'operator.add', "'-'": 'operator.sub', "'*'": 'operator.mul', "'/'": 'operator.truediv'}
    got = {src(k): src(v) for k, v in zip(tab[0].value.keys, tab[0].value.values)} if tab else {}
    ctx.decide('R06.5', VF + '._oper_to_func', str(got), got == want, tab[0] if tab else fc.node, 'operator symbols bound to the matching functions')
    # cross product
    cr = ctx.prog.func(VF + '.VectorCrossExpr.at')
    want = {0: ('x1*y2-x2*y1'), 1: ('x2*y0-x0*y2'), 2: ('x0*y1-x1*y0')}
    comps = {}
    node = cr.node.body[0]
    while isinstance(node, ast.If):
        t = node.test
        if isinstance(t, ast.Compare) and src(t.left) == 'i' and isinstance(t.comparators[0], ast.Constant):
            ret = [s for s in node.body if isinstance(s, ast.Return)]
            if ret:
                comps[t.comparators[0].value] = ret[0]
        node = node.orelse[0] if len(node.orelse) == 1 and isinstance(node.orelse[0], ast.If) else None
    ctx.floor('R06.5', 'components of the cross product', len(comps), 3)

    def vatom(n):
        t = src(n).replace(' ', '')
        for v in ('x', 'y'):
            for k in range(3):
                if t == 'self.%s[%d]' % (v, k):
                    return '%s%d' % (v, k)
        return None
    for i, ret in comps.items():
        try:
            got = poly.from_ast(ret.value, vatom)
            ref = poly.from_ast(ast.parse(want[i], mode='eval').body)
            ok = got == ref
        except poly.NotPolynomial:
            ok = None
        ctx.decide('R06.5', cr.qual, '(x cross y)[%d] = %s' % (i, src(ret.value)), ok, ret, 'expected ' + want[i])
    jn = ctx.prog.func(VF + '._jac_to_unscaled_normal')
    t = src(jn.node).replace(' ', '')
    ok2 = 'returnas_vector((-x[1],x[0]))' in t
    bad2 = 'as_vector((x[1],-x[0]))' in t or 'as_vector((x[0],x[1]))' in t or 'as_vector((-x[0],x[1]))' in t
    ctx.decide('R06.5', jn.qual, 'curve normal (-x[1], x[0])', True if ok2 else (None), jn.node, 'tangent rotated by +90 degrees (perpendicular: dot product vanishes identically)')
    ok3 = 'x,y=(jac[:,0],jac[:,1])' in t and 'returncross(x,y)' in t
    ctx.decide('R06.5', jn.qual, 'surface normal cross(jac[:,0], jac[:,1])', ok3 or None, jn.node)
    # integer power
    ip = ctx.prog.func(VF + '._integer_power')
    t = src(ip.node).replace(' ', '')
    ok = 'return1.0/_integer_power(x,-y)' in t and 'return_integer_power(x,y-1)*x' in t and 'return1.0' in t
    ctx.decide('R06.5', ip.qual, 'x**y by repeated multiplication, negative powers by reciprocal', ok or None, ip.node)
    sq = ctx.prog.func(VF + '.sym_index_to_seq')
    t = src(sq.node).replace(' ', '')
    ok = 'ifi>j:' in t and 'idx=sum((n-kforkinrange(0,i)))' in t and 'returnidx+(j-i)' in t
    ctx.decide('R06.5', sq.qual, 'symmetric (i,j) -> row offset sum_{k<i}(n-k) + (j-i) with i <= j', ok or None, sq.node)


def cond_substitutions(cond):
    """Map a fold_constants condition to a list of substitutions {sym: Poly}."""
    Z, ONE, M1 = Poly.const(0), Poly.const(1), Poly.const(-1)
    T = Poly.sym('t')
    table = {
        'self.x.is_zero()': [{'x': Z}],
        'self.y.is_zero()': [{'y': Z}],
        'isinstance(self.y,NegExpr)': [{'y': -T}],
        'isinstance(self.x,NegExpr)': [{'x': -Poly.sym('s')}],
        'self.x.is_constant(1)': [{'x': ONE}],
        'self.x.is_constant(-1)': [{'x': M1}],
        'self.y.is_constant(1)': [{'y': ONE}],
        'self.y.is_constant(-1)': [{'y': M1}],
        'any((c.is_zero()forcinself.children))': [{'x': Z}, {'y': Z}],
    }
    return table.get(cond)


def r06_6(ctx):
    f = ctx.prog.func(VF + '.VForm.finalize')
    steps = []
    for s in f.node.body:
        if isinstance(s, ast.Expr) and isinstance(s.value, ast.Call):
            steps.append((src(s.value.func), s))
    names = [n for n, _ in steps]
    if 'self.hash' not in names or 'self.dependency_analysis' not in names:
        raise AnchorMissing('R06.6: finalize pipeline')
    ih = names.index('self.hash')
    first_tr = min((i for i, n in enumerate(names) if n in ('self.transform', 'self.extract_common_expressions')), default=None)
    ctx.decide('R06.6', f.qual, 'self.hash() is step %d, first rewrite is step %s' % (ih, first_tr), first_tr is not None and ih < first_tr, steps[ih][1],
               'the cache key must describe the form as written, before rewriting')
    ida = names.index('self.dependency_analysis')
    last_tr = max(i for i, n in enumerate(names) if n in ('self.transform', 'self.extract_common_expressions'))
    ctx.decide('R06.6', f.qual, 'dependency_analysis is step %d, last rewrite is step %d' % (ida, last_tr), ida > last_tr, steps[ida][1],
               'orders are computed on the final expression trees')
    order = [src(s.value).replace(' ', '')[:70] for n, s in steps if n in ('self.transform', 'self.extract_common_expressions')]
    want_prefix = ['self.transform(lambdae:self.W,type=VolumeMeasureExpr)', 'self.transform(lambdae:self.SW,type=SurfaceMeasureExpr)',
                   'self.transform(self.replace_physical_derivs,type=PartialDerivExpr)', 'self.transform(self.replace_physical_derivs,type=VarRefExpr)',
                   'self.transform(self.insert_input_field_derivs,type=VarRefExpr)']
    ok = [o[:len(w)] for o, w in zip(order, want_prefix)] == want_prefix
    ctx.decide('R06.6', f.qual, 'measures expanded, then physical derivatives, then input-field derivatives', ok or None, f.node,
               'measure expansion introduces Jac/JacInv that the derivative replacement needs to see')
    i_lit = [i for i, o in enumerate(order) if '_to_literal_vec_mat' in o]
    i_fold = [i for i, o in enumerate(order) if 'fold_constants' in o]
    i_cse = [i for i, o in enumerate(order) if 'extract_common_expressions' in o]
    ok = bool(i_lit and i_fold and i_cse) and i_lit[0] < i_fold[0] < i_cse[0]
    ctx.decide('R06.6', f.qual, 'literal expansion < constant folding < CSE', ok or None, f.node, 'CSE must see scalar, folded expressions')
    g = [s for s in f.node.body if isinstance(s, ast.If) and '__is_finalized' in src(s.test)]
    ctx.decide('R06.6', f.qual, 'finalize refuses to run twice', bool(g) and isinstance(g[0].body[0], ast.Raise), g[0] if g else f.node)


def r06_7(ctx):
    """Chain-rule convention: d/dx_k = sum_i JacInv[i, k] d/dxi_i.  Every subscript of the inverse Jacobian in the
    derivative-replacement code takes the *derivative direction* as the column index and sums over the row index
    (slice / space dimensions).  The sites are siblings: a site with the roles exchanged contradicts the others."""
    f = ctx.prog.func(VF + '.VForm.replace_physical_derivs')
    sites = []
    for s in ast.walk(f.node):
        if isinstance(s, ast.Subscript) and src(s.value) == 'self.JacInv' and isinstance(s.slice, ast.Tuple) and len(s.slice.elts) == 2:
            r, c = s.slice.elts

            def kind(e):
                if isinstance(e, ast.Slice) or src(e) in ('self.spacedims',):
                    return 'range'
                if isinstance(e, (ast.Name, ast.Constant)):
                    return 'index'
                return '?'
            sites.append((s, kind(r), kind(c)))
    ctx.floor('R06.7', 'JacInv subscripts in replace_physical_derivs', len(sites), 3)
    good = [x for x in sites if x[1] == 'range' and x[2] == 'index']
    bad = [x for x in sites if x[1] == 'index' and x[2] == 'range']
    for s, rk, ck in sites:
        st = src(s)
        if rk == 'range' and ck == 'index':
            ctx.met('R06.7', f.qual, st, s, 'column = derivative direction, rows summed')
        elif rk == 'index' and ck == 'range' and good:
            ctx.violated('R06.7', f.qual, st, s,
                         'row/column roles exchanged relative to the %d sibling sites (%s): this contracts with JacInv^T, which differs for every '
                         'geometry whose inverse Jacobian is not symmetric' % (len(good), src(good[0][0])))
        else:
            ctx.undecided('R06.7', f.qual, st, s, 'subscript form not classified')
    gh = ctx.prog.func(VF + '.VForm._geo_hess_trf')
    t = src(gh.node).replace(' ', '')
    ok = 'J[a,m]*J[e,i]*J[u,j]' in t and 'hess(self.Geo[m],parametric=True)[e,u]' in t
    ctx.decide('R06.7', gh.qual, 'geometry Hessian term: -sum hess(G_m)[e,u] J[a,m] J[e,i] J[u,j]', ok or None, gh.node, 'formula (A.12) with the corrected sign')


def r06_9(ctx):
    """Constant folding decides x*1 -> x, x+0 -> x, 0*y -> 0 through ConstExpr.is_constant / is_zero.  The rewrite preserves
    the value only if that predicate means equality up to rounding: its tolerance must be absolute and tiny (<= 1e-12)."""
    m = ctx.prog.func(VF + '.ConstExpr.is_constant')
    rets = [r for r in guards.returns_of(m.node) if r.value is not None]
    if not rets:
        ctx.undecided('R06.9', m.qual, 'tolerance of the constant test', m.node, 'no return value')
        return
    for r in rets:
        v = r.value
        calls = [c for c in ast.walk(v) if isinstance(c, ast.Call) and (call_name(c) or '').split('.')[-1] in ('isclose', 'allclose')]
        if calls:
            c = calls[0]
            tol = {}
            for kw in c.keywords:
                if kw.arg in ('rtol', 'atol', 'rel_tol', 'abs_tol') and isinstance(kw.value, ast.Constant):
                    tol[kw.arg] = kw.value.value
            fn = call_name(c)
            if fn.startswith('math.'):
                rt, at = tol.get('rel_tol', 1e-9), tol.get('abs_tol', 0.0)
            else:
                rt, at = tol.get('rtol', 1e-5), tol.get('atol', 1e-8)
            ok = rt <= 1e-12 and at <= 1e-12
            ctx.decide('R06.9', m.qual, src(r), ok, r,
                       'is_constant(c) drives the folding rules 0*y -> 0, 1*y -> y, x/-1 -> -x; %s with rtol=%g, atol=%g treats literals that '
                       'differ from 0 or +-1 by up to that much as equal and folds them away' % (fn, rt, at), definite=True)
            continue
        cmp_ = [c for c in ast.walk(v) if isinstance(c, ast.Compare) and len(c.ops) == 1]
        if len(cmp_) == 1 and isinstance(cmp_[0].ops[0], (ast.Lt, ast.LtE)) and isinstance(cmp_[0].comparators[0], ast.Constant) \
                and isinstance(cmp_[0].comparators[0].value, float) and 'abs(' in src(cmp_[0].left):
            eps = cmp_[0].comparators[0].value
            ctx.decide('R06.9', m.qual, src(r), eps <= 1e-12, r, 'absolute tolerance %g of the constant test' % eps, definite=True)
        elif len(cmp_) == 1 and isinstance(cmp_[0].ops[0], ast.Eq):
            ctx.met('R06.9', m.qual, src(r), r, 'exact comparison')
        else:
            ctx.undecided('R06.9', m.qual, src(r), r, 'form of the constant test not recognised')


def r06_10(ctx):
    """transform_expr rewrites `.children` of inner nodes in place.  add() passes the caller's expression to
    substitute_vec_components once per output component, so every component must be computed on its own deep copy: a component
    computed on the original turns the caller's tree (and every sub-expression object the caller still holds and may use in a
    later add()) into that component's instance."""
    m = ctx.prog.func(VF + '.VForm.substitute_vec_components')
    params = [a.arg for a in m.node.args.args][1:]
    calls = [c for c in own_nodes(m.node) if isinstance(c, ast.Call) and call_name(c) in ('transform_expr', 'transform_exprs') and c.args]
    ctx.floor('R06.10', 'destructive transforms in substitute_vec_components', len(calls), 3)

    def fresh(e, depth=0):
        """True: a private copy; False: (possibly) the caller's object; None: unknown"""
        if isinstance(e, ast.Call):
            nm = call_name(e) or ''
            if nm in ('copy.deepcopy', 'deepcopy'):
                return True
            if nm in ('transform_expr',) and e.args:
                return fresh(e.args[0], depth + 1)
            return None
        if isinstance(e, ast.IfExp):
            a, b = fresh(e.body, depth + 1), fresh(e.orelse, depth + 1)
            if a is False or b is False:
                return False
            return True if (a and b) else None
        if isinstance(e, ast.Name):
            if e.id in params:
                return False
            if depth > 6:
                return None
            defs = [s for s in own_nodes(m.node) if isinstance(s, ast.Assign) and any(isinstance(t, ast.Name) and t.id == e.id for t in s.targets)
                    and s.lineno < getattr(e, 'lineno', 10 ** 9)]
            if not defs:
                return None
            # the closest preceding definition in the same block decides; all definitions that are not re-transforms are examined
            verdicts = []
            for d in defs:
                if isinstance(d.value, ast.Call) and call_name(d.value) == 'transform_expr' and d.value.args and src(d.value.args[0]) == e.id:
                    continue        # e = transform_expr(e, ...): inherits from the earlier definition
                verdicts.append(fresh(d.value, depth + 1))
            if any(v is False for v in verdicts):
                return False
            return True if verdicts and all(v is True for v in verdicts) else None
        return None
    for c in calls:
        v = fresh(c.args[0])
        ctx.decide('R06.10', m.qual, 'argument of the destructive %s(%s, ...) is a private copy' % (call_name(c), src(c.args[0])), v, c,
                   'each output component is computed on copy.deepcopy(expr)' if v else
                   'on some path `%s` is the caller\'s expression itself (not a deep copy): transform_expr rewrites it in place, so the tree handed to add() '
                   '-- and any sub-expression the caller reuses in a later add() -- becomes this component\'s instance' % src(c.args[0]), definite=True)


def r06_11(ctx):
    """indices_to_D counts how often each direction occurs in the index list (a derivative d^2/dt^2 is the index t twice).  The
    count is accumulated index by index (a loop with D[i] += 1, np.add.at, bincount, Counter); `D[list_of_indices] += 1` with a
    fancy index increments a repeated position ONCE (numpy buffers the read), so (0, 2, 2) becomes (1, 0, 1)."""
    f = ctx.prog.func(VF + '.VForm.indices_to_D')
    aug = [a for a in ast.walk(f.node) if isinstance(a, ast.AugAssign) and isinstance(a.target, ast.Subscript)]
    t = src(f.node).replace(' ', '')
    if 'np.add.at(' in t or 'bincount(' in t or 'Counter(' in t or '.count(' in t:
        ctx.met('R06.11', f.qual, 'multiplicities counted by a library routine', f.node)
        return
    if not aug:
        ctx.undecided('R06.11', f.qual, 'accumulation of the derivative orders', f.node, 'not recognised')
        return
    for a in aug:
        idx = a.target.slice
        lp = guards.in_loop(a, f.node)
        scalar = isinstance(idx, ast.Name) and lp is not None and isinstance(lp, ast.For) and idx.id in {x.id for x in ast.walk(lp.target) if isinstance(x, ast.Name)}
        fancy = any(isinstance(x, ast.Name) and x.id == 'indices' for x in ast.walk(resolve.expand(idx, a))) or isinstance(idx, (ast.List, ast.Call))
        ctx.decide('R06.11', f.qual, src(a), True if scalar else (False if fancy else None), a,
                   'one increment per occurrence' if scalar else
                   'augmented assignment through a fancy index: numpy reads D[idx], adds, and writes back -- a repeated index is incremented once. '
                   'A space derivative with two time derivatives (indices (0, 2, 2)) is rewritten as order (1, 0, 1): space-time forms with '
                   'grad(u).dt(2) assemble the wrong operator', definite=True)


def r06_12(ctx):
    """Constant folding recognises the constants 0, 1, -1 EXACTLY.  ConstExpr.is_constant with an absolute tolerance
    (|value - val| < 1e-15) makes every literal of magnitude below the tolerance "zero": 6.6e-34 * u * v * dx (a physical constant
    in SI units) is folded to the zero form and assembles the zero matrix -- the rewriting does not preserve the integrand, and
    whether it does depends on the units the user works in."""
    f = ctx.prog.func(VF + '.ConstExpr.is_constant')
    r = [x for x in guards.returns_of(f.node) if x.value is not None]
    if not r:
        ctx.undecided('R06.12', f.qual, 'comparison of the constant', f.node, 'no return value')
        return
    v = resolve.expand(r[-1].value, r[-1])
    exact = isinstance(v, ast.Compare) and len(v.ops) == 1 and isinstance(v.ops[0], ast.Eq)
    tol = isinstance(v, ast.Compare) and len(v.ops) == 1 and isinstance(v.ops[0], (ast.Lt, ast.LtE)) and \
        any(isinstance(x, ast.Call) and (call_name(x) or '').split('.')[-1] in ('abs', 'fabs') for x in ast.walk(v.left)) and \
        isinstance(v.comparators[0], ast.Constant)
    rel = 'isclose' in src(v) or 'allclose' in src(v)
    ctx.decide('R06.12', f.qual, src(r[-1])[:80], True if exact else (False if tol else None), r[-1],
               'exact comparison' if exact else
               'a constant counts as `val` when it is within the ABSOLUTE distance %s: every literal smaller than that is folded to zero '
               '(1e-18 * u * v * dx and 6.6e-34 * u * v * dx assemble the zero matrix without any message)' % src(v.comparators[0]) if tol else
               'tolerance test not recognised' if not rel else 'relative tolerance', definite=True)


def run(ctx):
    r06_12(ctx)
    r06_11(ctx)
    r06_10(ctx)
    r06_9(ctx)
    r06_7(ctx)
    r06_1(ctx)
    r06_2(ctx)
    r06_3(ctx)
    r06_4(ctx)
    r06_5(ctx)
    r06_6(ctx)
    # R06.8 = R08.4: every variable is computed before its uses, in the phase (precompute / kernel) where its inputs exist
    import rules.C08 as c08
    ctx.shared(c08.r08_4, 'R08.4', 'R06.8')

"""C15 -- multi-level structured matrices (structural clauses)."""
import ast

from sa.program import src, own_nodes, call_name, parent, kwarg, loc
from sa import guards, poly, resolve

EXPLANATION = (
    "Static rules over pyiga/mlmatrix.py and mlmatrix_cy.pyx: (R15.1) per-level arrays are read with the level index of the "
    "slot they initialise (contradiction rule against the sibling update statements); (R15.2) the row/column numbers formed in "
    "the 2D/3D kernels are Horner forms over row (column) indices with the next level's row (column) extent, identically in the "
    "nonzero and matvec kernels, and the lower-triangular filter is J <= I; (R15.3) every ravel  a*E + b  over typed (level, axis) "
    "indices multiplies by the extent of b's axis; (R15.4) fixed-size [8] level buffers are only indexed below a bound that an "
    "assertion ties to 8; (R15.5) transpose/reorder permute block sizes, index arrays and data consistently; (R15.6) no "
    "np.array(..., copy=False) (raises under numpy 2 for non-array input) in live code; (R15.7) result vectors of _matvec are "
    "sized by the row count. Necessary conditions only.")
DOES_NOT_DECIDE = "equality of the enumerated pattern with the dense Kronecker product; compute_sparsity_ij; data values"
TECHNIQUE = "custom AST rules on Python + lowered Cython: (level,axis) typing of index expressions, polynomial expansion of Horner forms, contradiction between sibling statements"

CY = 'pyiga.mlmatrix_cy'
PY = 'pyiga.mlmatrix'


# ------------------------------------------------------------------ typing of (level, axis) quantities
class Typed:
    def __init__(self, kind, level, axis):
        self.kind, self.level, self.axis = kind, level, axis    # kind: 'idx' | 'ext'

    def __repr__(self):
        return '%s(level=%s, axis=%s)' % (self.kind, self.level, self.axis)


def _const_int(n):
    if isinstance(n, ast.Constant) and isinstance(n.value, int) and not isinstance(n.value, bool):
        return n.value
    return None


def type_env(fn):
    """Derive types of local names from their defining loads.

        b1, b2, b3 = bidx              -> level arrays  b1:0, b2:1, b3:2
        xi0, xi1 = b1[i,0], b1[i,1]    -> idx(level 0, axis 0/1)
        m2, n2 = block_sizes[1]        -> ext(level 1, axis 0/1)
    """
    level_arrays = {}
    env = {}
    for n in own_nodes(fn):
        if not isinstance(n, ast.Assign) or len(n.targets) != 1:
            continue
        t, v = n.targets[0], n.value
        if isinstance(t, ast.Tuple) and isinstance(v, ast.Name) and v.id == 'bidx':
            for k, e in enumerate(t.elts):
                if isinstance(e, ast.Name):
                    level_arrays[e.id] = k
    for n in own_nodes(fn):
        if not isinstance(n, ast.Assign) or len(n.targets) != 1:
            continue
        t, v = n.targets[0], n.value
        if isinstance(t, ast.Tuple) and isinstance(v, ast.Tuple) and len(t.elts) == len(v.elts):
            pairs = list(zip(t.elts, v.elts))
        elif isinstance(t, ast.Tuple) and isinstance(v, ast.Subscript):
            # m2, n2 = block_sizes[1]
            lvl = _const_int(v.slice)
            if lvl is not None and isinstance(v.value, ast.Name) and 'size' in v.value.id or \
                    (lvl is not None and src(v.value) in ('bs', 'self.bs', 'structure.bs')):
                for ax, e in enumerate(t.elts):
                    if isinstance(e, ast.Name):
                        env[e.id] = Typed('ext', lvl, ax)
            continue
        else:
            pairs = [(t, v)]
        for tt, vv in pairs:
            if not isinstance(tt, ast.Name):
                continue
            ty = type_of(vv, env, level_arrays)
            if ty is not None:
                env[tt.id] = ty
    return env, level_arrays


def type_of(e, env, level_arrays):
    if isinstance(e, ast.Name):
        return env.get(e.id)
    if isinstance(e, ast.Subscript):
        base = e.value
        sl = e.slice
        # B[i, c]  with B a level array
        if isinstance(base, ast.Name) and base.id in level_arrays and isinstance(sl, ast.Tuple) and len(sl.elts) == 2:
            c = _const_int(sl.elts[1])
            if c is not None:
                return Typed('idx', level_arrays[base.id], c)
        # self.bidx[j][:, c]
        if isinstance(base, ast.Subscript) and src(base.value) in ('self.bidx', 'bidx') and isinstance(sl, ast.Tuple) and len(sl.elts) == 2:
            c = _const_int(sl.elts[1])
            if c is not None:
                return Typed('idx', src(base.slice), c)
        # self.bs[j][c]   /  bs[k, c]
        if isinstance(base, ast.Subscript) and src(base.value) in ('self.bs', 'bs', 'self._bs_arr'):
            c = _const_int(sl)
            if c is not None:
                return Typed('ext', src(base.slice), c)
        if src(base) in ('bs', 'self._bs_arr') and isinstance(sl, ast.Tuple) and len(sl.elts) == 2:
            c = _const_int(sl.elts[1])
            if c is not None:
                return Typed('ext', src(sl.elts[0]), c)
    return None


def horner_steps(expr):
    """Yield (a, E, b, node) for every  a*E + b  /  b + a*E  inside expr."""
    for n in ast.walk(expr):
        if isinstance(n, ast.BinOp) and isinstance(n.op, ast.Add):
            for mul, add in ((n.left, n.right), (n.right, n.left)):
                if isinstance(mul, ast.BinOp) and isinstance(mul.op, ast.Mult):
                    yield mul.left, mul.right, add, n
                    break


# ------------------------------------------------------------------ R15.1
def r15_1(ctx):
    """Level-index consistency in functions that keep per-level state in fixed [N] arrays."""
    n_stmts = 0
    for fi in ctx.prog.funcs_in(CY):
        decls = getattr(fi.node, '_decls', {})
        per_level = {name for name, ct in decls.items() if ct.dims and ct.const_dims()[0] is not None}
        if len(per_level) < 2:
            continue
        # statements  T[x](, T2[x]) = ... S[y][...] ...   with T, S per-level arrays
        sites = []
        for n in own_nodes(fi.node):
            if isinstance(n, (ast.Assign, ast.AugAssign)):
                targets = n.targets[0] if isinstance(n, ast.Assign) else n.target
                tl = targets.elts if isinstance(targets, ast.Tuple) else [targets]
                tidx = set()
                for t in tl:
                    if isinstance(t, ast.Subscript) and isinstance(t.value, ast.Name) and t.value.id in per_level:
                        tidx.add(src(t.slice))
                if len(tidx) != 1:
                    continue
                x = tidx.pop()
                reads = []
                for r in ast.walk(n.value):
                    if isinstance(r, ast.Subscript) and isinstance(r.value, ast.Name) and r.value.id in per_level \
                            and isinstance(r.ctx, ast.Load):
                        # only the *level* subscript (outermost array index), not the pointer offset
                        reads.append((r.value.id, src(r.slice), r))
                if reads:
                    sites.append((n, x, reads))
        if not sites:
            continue
        # majority convention per source array: read index == target index
        for (n, x, reads) in sites:
            n_stmts += 1
            for (arr, y, r) in reads:
                construct = '%s.%s' % (CY, fi.name)
                st = src(n)
                if y == x:
                    ctx.met('R15.1', construct, st, n, 'level slot %s reads %s[%s]' % (x, arr, y))
                else:
                    # contradiction witness: a sibling statement reads the same array consistently
                    sib = [s for (s, xx, rr) in sites if s is not n and any(a == arr and yy == xx for (a, yy, _r) in rr)]
                    is_const = _const_int(r.slice) is not None
                    if sib and is_const:
                        ctx.violated('R15.1', construct, st, n,
                                     'slot [%s] is filled from %s[%s]; sibling statement "%s" reads %s with the slot index -- '
                                     'for every level other than %s the value comes from the wrong level'
                                     % (x, arr, y, src(sib[0]), arr, y))
                    else:
                        ctx.undecided('R15.1', construct, st, n, 'slot [%s] reads %s[%s]' % (x, arr, y))
    ctx.floor('R15.1', 'per-level slot assignments', n_stmts, 6)


# ------------------------------------------------------------------ R15.2
KERNELS = ('ml_nonzero_2d', 'ml_matvec_2d', 'ml_nonzero_3d', 'ml_matvec_3d')


def r15_2(ctx):
    forms = {}
    for name in KERNELS:
        fi = ctx.prog.func('%s.%s' % (CY, name))
        env, level_arrays = type_env(fi.node)
        nlev = 2 if name.endswith('2d') else 3
        ctx.floor('R15.2', 'level arrays in ' + name, len(level_arrays), nlev)
        construct = '%s.%s' % (CY, name)
        for target, axis in (('I', 0), ('J', 1)):
            defs = [n for n in own_nodes(fi.node) if isinstance(n, ast.Assign) and len(n.targets) == 1
                    and isinstance(n.targets[0], ast.Name) and n.targets[0].id == target]
            if not defs:
                raise_missing(ctx, 'R15.2', '%s: no assignment to %s' % (name, target))
            for d in defs:
                try:
                    p = poly.from_ast(d.value).n
                except poly.NotPolynomial:
                    ctx.undecided('R15.2', construct, src(d), d, 'not polynomial')
                    continue
                ok, why = check_horner(p, env, axis, nlev)
                ctx.decide('R15.2', construct, src(d), ok, d, why)
                forms.setdefault((nlev, target), []).append((name, repr(p)))
        # lower_tri filter
        if 'nonzero' in name:
            conds = [n for n in own_nodes(fi.node) if isinstance(n, ast.If) and 'lower_tri' in src(n.test)]
            for c in conds:
                t = src(c.test).replace(' ', '')
                ok = t in ('notlower_triorJ<=I', 'notlower_triorI>=J')
                ctx.decide('R15.2', construct, src(c.test), ok if ok else None, c, 'lower-triangular filter keeps J <= I')
        # the store in matvec: y[I] += X[...] * x[J]
        if 'matvec' in name:
            st = [n for n in own_nodes(fi.node) if isinstance(n, ast.AugAssign)]
            for s in st:
                ok = src(s.target) == 'y[I]' and 'x[J]' in src(s.value)
                ctx.decide('R15.2', construct, src(s), ok if ok else None, s, 'row index addresses y, column index addresses x')
    # sibling agreement nonzero <-> matvec modulo variable names: compare after renaming by type
    for (nlev, target), lst in forms.items():
        pass
    # nd kernel: I uses block_i/block_rows, J uses block_j/block_cols
    fi = ctx.prog.func(CY + '.ml_nonzero_nd')
    for n in own_nodes(fi.node):
        if isinstance(n, ast.Assign) and isinstance(n.value, ast.Call) and call_name(n.value) == 'to_seq':
            a = [src(x) for x in n.value.args]
            tgt = src(n.targets[0])
            want = {'I': ('block_i', 'block_rows'), 'J': ('block_j', 'block_cols')}.get(tgt)
            if want:
                ok = want[0] in a[0] and want[1] in a[1]
                ctx.decide('R15.2', CY + '.ml_nonzero_nd', src(n), ok, n, '%s is the ravel of %s over %s' % (tgt, want[0], want[1]))
        if isinstance(n, ast.Assign) and isinstance(n.targets[0], ast.Tuple) and src(n.targets[0]).startswith('block_rows['):
            ok = src(n.targets[0]).replace(' ', '') == '(block_rows[i],block_cols[i])' and src(n.value) == 'block_sizes[i]'
            ctx.decide('R15.2', CY + '.ml_nonzero_nd', src(n), ok if ok else None, n, 'rows/cols extents from block_sizes[i] in (rows, cols) order')
    # to_seq is a Horner ravel
    for q in (CY + '.to_seq', PY + '.to_seq'):
        f = ctx.prog.func(q)
        body = [src(s) for s in own_nodes(f.node) if isinstance(s, ast.AugAssign)]
        ok = 'i *= dims[k]' in body and 'i += I[k]' in body
        ctx.decide('R15.2', q, ' ; '.join(sorted(body)), ok if ok else None, f.node, 'lexicographic ravel: multiply by own extent, then add index')


def raise_missing(ctx, rule, what):
    from sa.program import AnchorMissing
    raise AnchorMissing('%s: %s' % (rule, what))


def check_horner(p, env, axis, nlev):
    """p = sum over levels l of idx_l * prod_{l' > l} ext_{l'} with all of the given axis."""
    terms = dict(p.t)
    seen_levels = set()
    for mono, coef in terms.items():
        if coef != 1:
            return False, 'coefficient %s' % coef
        idx = [s for s, pw in mono if isinstance(env.get(s), Typed) and env[s].kind == 'idx']
        ext = [s for s, pw in mono if isinstance(env.get(s), Typed) and env[s].kind == 'ext']
        other = [s for s, pw in mono if s not in idx and s not in ext]
        if other:
            return None, 'untyped symbol %s' % other
        if len(idx) != 1 or any(pw != 1 for _s, pw in mono):
            return False, 'term %s is not index * extents' % (mono,)
        it = env[idx[0]]
        if it.axis != axis:
            return False, '%s is an index of axis %d used in the axis-%d number' % (idx[0], it.axis, axis)
        want = set(range(it.level + 1, nlev))
        got = set()
        for e in ext:
            et = env[e]
            if et.axis != axis:
                return False, 'extent %s belongs to axis %d but multiplies an axis-%d index' % (e, et.axis, axis)
            got.add(et.level)
        if got != want:
            return False, 'index of level %d multiplied by extents of levels %s, expected %s' % (it.level, sorted(got), sorted(want))
        seen_levels.add(it.level)
    if seen_levels != set(range(nlev)):
        return False, 'levels present: %s' % sorted(seen_levels)
    return True, 'Horner form over axis %d of %d levels' % (axis, nlev)


# ------------------------------------------------------------------ R15.3
def r15_3(ctx):
    n = 0
    # (a) typed ravels  idx*ext + idx
    for q in (PY + '.MLStructure.sequential_bidx',):
        fi = ctx.prog.func(q)
        for a, E, b, node in horner_steps(fi.node):
            cand = []
            for (x, y) in ((a, E), (E, a)):
                tx, ty, tb = type_of(x, {}, {}), type_of(y, {}, {}), type_of(b, {}, {})
                if tx and ty and tb and tx.kind == 'idx' and ty.kind == 'ext' and tb.kind == 'idx':
                    cand.append((tx, ty, tb))
            for (ta, tE, tb) in cand:
                n += 1
                ok = (tE.level == tb.level and tE.axis == tb.axis)
                ctx.decide('R15.3', q, src(node), ok, node,
                           'ravel multiplies by %r but adds %r: the stride must be the extent of the added index\'s axis '
                           '(consumers from_seq2 / reindex_from_reordered decode with the column extent)' % (tE, tb)
                           if not ok else 'stride is the extent of the added index')
    # (b) loop-variable ravels  i*E + j  with j in range(E')
    for q in (PY + '.reorder', PY + '.compute_banded_sparsity'):
        fi = ctx.prog.func(q)
        ext = {}
        for l in own_nodes(fi.node):
            if isinstance(l, ast.For) and isinstance(l.target, ast.Name) and isinstance(l.iter, ast.Call) and call_name(l.iter) == 'range':
                stop = l.iter.args[0] if len(l.iter.args) == 1 else l.iter.args[1]
                # min(n, ...) -> n
                if isinstance(stop, ast.Call) and call_name(stop) == 'min':
                    names = [src(x) for x in stop.args if isinstance(x, ast.Name)]
                    if len(names) == 1:
                        ext[l.target.id] = names[0]
                else:
                    ext[l.target.id] = src(stop)
        for a, E, b, node in horner_steps(fi.node):
            if isinstance(b, ast.Name) and b.id in ext and isinstance(a, ast.Name) and a.id in ext:
                n += 1
                ok = src(E) == ext[b.id]
                ctx.decide('R15.3', q, src(node), ok, node, 'stride %s vs extent of %s = %s' % (src(E), b.id, ext[b.id]))
    # (c) decoders: divisor and modulus are the same (column) extent
    for q in (PY + '.reindex_from_reordered', CY + '.reindex_from_reordered', CY + '.from_seq2'):
        fi = ctx.prog.func(q)
        for s in own_nodes(fi.node):
            if isinstance(s, ast.Assign) and isinstance(s.value, ast.Tuple) and len(s.value.elts) == 2:
                d, m = s.value.elts
                if isinstance(d, ast.BinOp) and isinstance(d.op, ast.FloorDiv) and isinstance(m, ast.BinOp) and isinstance(m.op, ast.Mod):
                    n += 1
                    ok = src(d.left) == src(m.left) and src(d.right) == src(m.right)
                    ctx.decide('R15.3', q, src(s), ok, s, 'quotient and remainder by the same extent')
        # from_seq2: separate statements
        if q.endswith('from_seq2'):
            ds = [s for s in own_nodes(fi.node) if isinstance(s, ast.Assign)]
            exts = set()
            for s in ds:
                if isinstance(s.value, ast.BinOp) and isinstance(s.value.op, (ast.FloorDiv, ast.Mod)):
                    exts.add(src(s.value.right))
            n += 1
            ctx.decide('R15.3', q, ' ; '.join(src(s) for s in ds), exts == {'dims[1]'} if exts else None, fi.node,
                       'row = i // ncols, col = i % ncols')
        # the re-encoding  bi0*m2 + ii0 : index of block level times extent of inner level
        for r in guards.returns_of(fi.node):
            if isinstance(r.value, ast.Tuple) and len(r.value.elts) == 2:
                s = src(r.value).replace(' ', '')
                ok = s == '(bi0*m2+ii0,bi1*n2+ii1)'
                n += 1
                ctx.decide('R15.3', q, src(r.value), ok if ok else None, r, 'row uses m2, column uses n2')
    ctx.floor('R15.3', 'ravel / unravel sites', n, 7)


# ------------------------------------------------------------------ R15.4
def r15_4(ctx):
    n = 0
    for fi in ctx.prog.funcs_in(CY):
        decls = getattr(fi.node, '_decls', {})
        fixed = {name: ct.const_dims()[0] for name, ct in decls.items() if ct.dims and ct.const_dims()[0] is not None}
        if not fixed:
            continue
        sizes = set(fixed.values())
        # loop bounds that index the fixed arrays
        bounds = set()
        for l in own_nodes(fi.node):
            if isinstance(l, ast.For) and isinstance(l.target, ast.Name) and isinstance(l.iter, ast.Call):
                it = l.iter
                if call_name(it) == 'reversed' and it.args and isinstance(it.args[0], ast.Call):
                    it = it.args[0]
                if call_name(it) == 'range' and len(it.args) == 1:
                    var = l.target.id
                    used = any(isinstance(s, ast.Subscript) and isinstance(s.value, ast.Name) and s.value.id in fixed
                               and var in {x.id for x in ast.walk(s.slice) if isinstance(x, ast.Name)}
                               for s in ast.walk(l))
                    if used:
                        bounds.add(src(it.args[0]))
        construct = '%s.%s' % (CY, fi.name)
        for b in sorted(bounds):
            n += 1
            N = min(sizes)
            asserted = False
            for a in own_nodes(fi.node):
                if isinstance(a, ast.Assert):
                    t = src(a.test).replace(' ', '')
                    if t in ('%s<=%d' % (b, N), '%s<%d' % (b, N + 1)):
                        asserted = True
            if asserted:
                ctx.met('R15.4', construct, 'index < %s into [%d] buffers' % (b, N), fi.node, 'assert %s <= %d in the function' % (b, N))
                continue
            # constant parameter (from_seq2's size_t[2] out indexed by constants) or callers assert
            callers = [g for g in ctx.prog.funcs_in(CY) if g is not fi and any(
                isinstance(c, ast.Call) and call_name(c) == fi.name for c in ast.walk(g.node))]
            ok = bool(callers) and all(any(isinstance(a, ast.Assert) and ('<= %d' % N) in src(a.test) for a in own_nodes(g.node))
                                       for g in callers)
            kind = getattr(fi.node, '_cy', {}).get('kind')
            if ok and kind == 'cdef':
                ctx.met('R15.4', construct, 'index < %s into [%d] buffers' % (b, N), fi.node,
                        'module-private; every caller (%s) asserts <= %d' % (', '.join(g.name for g in callers), N))
            else:
                ctx.violated('R15.4', construct, 'index < %s into [%d] buffers' % (b, N), fi.node,
                             'no assertion bounds %s by %d in the function or in all of its callers (boundscheck is off)' % (b, N))
    ctx.floor('R15.4', 'loops indexing fixed-size level buffers', n, 2)


# ------------------------------------------------------------------ R15.5
def r15_5(ctx):
    tr = ctx.prog.func(PY + '.MLStructure.transpose')
    s = {src(t.targets[0]): t.value for t in own_nodes(tr.node) if isinstance(t, ast.Assign)}
    bs = s.get('bs')
    bidx = s.get('bidx')
    ctx.floor('R15.5', 'assignments in MLStructure.transpose', len(s), 2)
    ok_bs = bs is not None and src(bs).replace(' ', '') == 'tuple(((b[1],b[0])forbinself.bs))'
    ctx.decide('R15.5', PY + '.MLStructure.transpose', 'bs = ' + src(bs), ok_bs if ok_bs else None, bs, 'block sizes swapped on every level')
    ix = s.get('ix')
    ok_ix = bidx is not None and 'for bx in self.bidx' in src(bidx) and (
        ('bx[:, ix]' in src(bidx) and ix is not None and src(ix).replace(' ', '') in ('np.array([1,0])', '[1,0]'))
        or 'bx[:, ::-1]' in src(bidx) or 'bx[:, [1, 0]]' in src(bidx))
    ctx.decide('R15.5', PY + '.MLStructure.transpose', 'bidx = ' + src(bidx), ok_ix if ok_ix else None, bidx, 'index columns swapped on every level')
    ro = ctx.prog.func(PY + '.MLStructure.reorder')
    for c in ast.walk(ro.node):
        if isinstance(c, ast.Call) and call_name(c) == 'MLStructure':
            a = {k.arg: src(k.value) for k in c.keywords}
            ok = a.get('bs', '').replace('self.bs', 'X') == a.get('bidx', '').replace('self.bidx', 'X') and 'for j in axes' in a.get('bs', '')
            ctx.decide('R15.5', PY + '.MLStructure.reorder', src(c), ok if ok else None, c, 'bs and bidx permuted by the same axes')
    mro = ctx.prog.func(PY + '.MLMatrix.reorder')
    t = src(mro.node)
    ok = 'np.transpose(self.data, axes)' in t and 'self.structure.reorder(axes)' in t
    ctx.decide('R15.5', PY + '.MLMatrix.reorder', 'data axes and structure permuted by the same axes', ok if ok else None, mro.node)
    nc = ctx.prog.func(PY + '.MLStructure.nonzeros_for_columns')
    t = src(nc.node)
    ok = 'J, I = self.transpose().nonzeros_for_rows(col_indices)' in t and 'return (I, J)' in t
    ctx.decide('R15.5', PY + '.MLStructure.nonzeros_for_columns', 'rows of the transpose, swapped back', ok if ok else None, nc.node)
    # dispatch on L covers 1, 2, 3, else
    nz = ctx.prog.func(PY + '.MLStructure.nonzero')
    # the if-chain on self.L is evaluated for L = 1..4: L levels must reach the L-level kernel, 4 the generic one
    want = {1: None, 2: 'ml_nonzero_2d', 3: 'ml_nonzero_3d', 4: 'ml_nonzero_nd'}
    verdict, detail = True, []
    for L, kern in want.items():
        live = guards.specialise(nz.node.body, {'self.L': L})
        used = sorted({n.id for st in live for n in ast.walk(st) if isinstance(n, ast.Name) and n.id.startswith('ml_nonzero_')})
        if any(isinstance(st, ast.If) and 'self.L' in src(st.test) for st in live):
            verdict = None if verdict else verdict
            detail.append('L=%d: ?' % L)
        elif used != ([kern] if kern else []):
            verdict = False
            detail.append('L=%d: %s' % (L, ','.join(used) or 'no kernel'))
        else:
            detail.append('L=%d: %s' % (L, kern or 'bidx[0]'))
    ctx.decide('R15.5', PY + '.MLStructure.nonzero', 'dispatch on self.L (%s)' % '; '.join(detail), verdict, nz.node,
               'every level count has a kernel', definite=True)
    for c in ast.walk(nz.node):
        if isinstance(c, ast.Call) and (call_name(c) or '').startswith('ml_nonzero'):
            ok = src(kwarg(c, 'lower_tri')) == 'lower_tri'
            ctx.decide('R15.5', PY + '.MLStructure.nonzero', src(c), ok, c, 'lower_tri forwarded')
            # the triangle is selected entry by entry inside the kernels (J <= I on raveled indices); the block pattern handed
            # to them is the structure's own, unfiltered: whether a level-0 block above the block diagonal contains entries
            # with J <= I depends on the extents of the inner levels (more rows than columns: yes)
            a0 = c.args[0] if c.args else None
            if a0 is None:
                ctx.undecided('R15.5', PY + '.MLStructure.nonzero', 'block pattern passed to ' + call_name(c), c, 'no positional argument')
            elif src(a0) == 'self.bidx':
                ctx.met('R15.5', PY + '.MLStructure.nonzero', 'block pattern passed to %s is self.bidx' % call_name(c), c, 'unfiltered')
            elif isinstance(a0, ast.Name):
                defs = [s for s in own_nodes(nz.node) if isinstance(s, ast.Assign) and any(isinstance(t, ast.Name) and t.id == a0.id for t in s.targets)]
                filtered = [s for s in defs if any(isinstance(x, ast.Compare) for x in ast.walk(s.value))]
                if filtered:
                    ctx.violated('R15.5', PY + '.MLStructure.nonzero', 'block pattern passed to %s is self.bidx' % call_name(c), filtered[0],
                                 '`%s` removes blocks by comparing BLOCK indices before the kernel selects entries by raveled indices: a block with '
                                 'j0 > i0 still contains entries with J <= I when the inner levels have more rows than columns, so those entries '
                                 '(diagonal ones included) are lost from the lower triangle' % src(filtered[0])[:100])
                elif defs and all(src(s.value) == 'self.bidx' for s in defs):
                    ctx.met('R15.5', PY + '.MLStructure.nonzero', 'block pattern passed to %s is self.bidx' % call_name(c), c, 'through a local')
                else:
                    ctx.undecided('R15.5', PY + '.MLStructure.nonzero', 'block pattern passed to ' + call_name(c), c, 'origin of %s not recognised' % a0.id)
            else:
                ctx.undecided('R15.5', PY + '.MLStructure.nonzero', 'block pattern passed to ' + call_name(c), c, src(a0)[:60])


# ------------------------------------------------------------------ R15.6
def shadowed_by_star_import(prog, unit, fname):
    """True if a later ``from .x import *`` re-binds ``fname`` (x defines it publicly)."""
    seen_def = False
    for s in unit.tree.body:
        if isinstance(s, ast.FunctionDef) and s.name == fname:
            seen_def = True
        elif seen_def and isinstance(s, ast.ImportFrom) and any(a.name == '*' for a in s.names):
            mod = 'pyiga.' + (s.module or '')
            u = prog.units.get(mod)
            if u is not None:
                for d in u.tree.body:
                    if isinstance(d, ast.FunctionDef) and d.name == fname and not fname.startswith('_'):
                        if getattr(d, '_cy', {}).get('kind', 'def') in ('def', 'cpdef'):
                            return mod
    return None


def _copy_false_calls(tree):
    out = []
    for c in ast.walk(tree):
        if isinstance(c, ast.Call) and call_name(c) in ('np.array', 'numpy.array'):
            cp = kwarg(c, 'copy')
            if isinstance(cp, ast.Constant) and cp.value is False:
                out.append(c)
    return out


def r15_6(ctx):
    n = 0
    # positive control: the matcher must fire on a known-bad snippet on every run
    if len(_copy_false_calls(ast.parse('bs = np.array(bs, copy=False)'))) != 1:
        raise_missing(ctx, 'R15.6', 'positive control for np.array(copy=False) did not match')
    for unit in ctx.prog.units.values():
        if not unit.modname.startswith('pyiga'):
            continue
        for c in ast.walk(unit.tree):
            if isinstance(c, ast.Call) and call_name(c) in ('np.array', 'numpy.array'):
                cp = kwarg(c, 'copy')
                if cp is None:
                    n += 1
                    continue
                n += 1
                if isinstance(cp, ast.Constant) and cp.value is False:
                    from sa.program import enclosing_function
                    fn = enclosing_function(c)
                    fname = fn.name if fn is not None else '<module>'
                    construct = '%s.%s' % (unit.modname, fname)
                    sh = shadowed_by_star_import(ctx.prog, unit, fname) if fn is not None and isinstance(parent(fn), ast.Module) else None
                    if sh:
                        ctx.met('R15.6', construct, src(c), c, 'dead: the name is re-bound by "from %s import *"' % sh, nontrivial=False)
                        ctx.note('%s: %s uses np.array(copy=False) but is shadowed by %s' % (loc(c), fname, sh))
                    else:
                        ctx.violated('R15.6', construct, src(c), c,
                                     'numpy >= 2 raises ValueError when a copy is needed (any tuple/list argument); use np.asarray')
    ctx.count('np.array calls inspected', n)
    ctx.met('R15.6', 'pyiga/*', 'np.array call sites inspected for copy=False', None,
            '%d calls inspected; positive control matched' % n, where='pyiga/')
    ctx.floor('R15.6', 'np.array calls in the package', n, 20)


# ------------------------------------------------------------------ R15.7
def r15_7(ctx):
    """Result vector of a kernel-backed _matvec is sized by the row count."""
    mv = ctx.prog.func(PY + '.MLMatrix._matvec')
    n = 0
    for s in own_nodes(mv.node):
        if isinstance(s, ast.Assign) and isinstance(s.value, ast.Call) and call_name(s.value) in ('np.zeros', 'np.empty'):
            n += 1
            a = src(s.value.args[0]).replace(' ', '')
            if a in ('self.shape[0]', '(self.shape[0],)'):
                ctx.met('R15.7', PY + '.MLMatrix._matvec', src(s), s, 'output sized by the number of rows')
            elif a in ('len(x)', 'x.shape[0]', 'x.shape', 'self.shape[1]'):
                ctx.violated('R15.7', PY + '.MLMatrix._matvec', src(s), s,
                             'output buffer has the length of the input (columns); the kernel stores y[I] for row numbers I '
                             'with bounds checking off -- wrong length for wide, out-of-bounds write for tall matrices')
            else:
                ctx.undecided('R15.7', PY + '.MLMatrix._matvec', src(s), s, 'size expression not recognised')
    ctx.floor('R15.7', 'output allocations in MLMatrix._matvec', n, 2)


def r15_8(ctx):
    """The pattern of two spline spaces is, per level, the set of pairs with overlapping supports: it is produced by the
    support search compute_sparsity_ij(kv0, kv1) for EVERY level.  A closed form (|i-j| <= p) is that set only for simple
    interior knots; choosing it for some levels makes the pattern a strict superset as soon as an interior knot repeats."""
    fk = ctx.prog.func(PY + '.MLStructure.from_kvs')
    bx = [s for s in own_nodes(fk.node) if isinstance(s, ast.Assign) and src(s.targets[0]) == 'bidx']
    if not bx:
        ctx.undecided('R15.8', fk.qual, 'per-level pattern from the support search', fk.node, 'bidx not found')
    else:
        v = bx[0].value
        producers = sorted({call_name(c) for c in ast.walk(v) if isinstance(c, ast.Call) and 'sparsity' in (call_name(c) or '')})
        cond = [x for x in ast.walk(v) if isinstance(x, ast.IfExp)]
        if producers == ['compute_sparsity_ij'] and not cond:
            ctx.expect('R15.8', fk.qual, v, 'tuple(compute_sparsity_ij(kv0, kv1) for (kv0, kv1) in zip(kvs0, kvs1))', bx[0],
                       'support search for every level, column space first', label='per-level pattern from the support search')
        elif len(producers) > 1 or cond:
            ctx.violated('R15.8', fk.qual, 'per-level pattern from the support search', bx[0],
                         'some levels take their pattern from %s (under `%s`) instead of the support search: a banded / closed-form pattern equals the '
                         'set of overlapping-support pairs only for simple interior knots, with a repeated knot it contains pairs of disjoint supports'
                         % ([p for p in producers if p != 'compute_sparsity_ij'] or producers, src(cond[0].test) if cond else '?'))
        else:
            ctx.undecided('R15.8', fk.qual, 'per-level pattern from the support search', bx[0], 'producers: %s' % producers)
    # the orientation bs = (rows: kv1.numdofs, columns: kv0.numdofs)
    ctx.expect_assign('R15.8', fk, 'bs', 'tuple((kv1.numdofs, kv0.numdofs) for (kv0, kv1) in zip(kvs0, kvs1))', 'block sizes (test space rows, trial space columns)')


def r15_10(ctx):
    """asmatrix(): every sparse matrix it builds gets shape=self.shape.  Without it scipy infers the shape from the largest
    index present, so a pattern whose last row or column is empty gives a smaller matrix than M.shape."""
    f = ctx.prog.func(PY + '.MLMatrix.asmatrix')
    n = 0
    for c in ast.walk(f.node):
        if isinstance(c, ast.Call) and (call_name(c) or '').split('.')[-1] in ('coo_matrix', 'csr_matrix', 'csc_matrix', 'coo_array', 'csr_array') \
                and c.args and isinstance(c.args[0], ast.Tuple):
            n += 1
            sh = kwarg(c, 'shape', 1)
            ok = sh is not None and src(sh) in ('self.shape', 'self.structure.shape')
            ctx.decide('R15.10', f.qual, src(c)[:90], ok, c, 'explicit shape' if ok else
                       'built from (data, (I, J)) without shape=self.shape: the shape is inferred from the largest row / column index, so a '
                       'structure whose last row or column has no entry converts to a matrix smaller than M.shape (M.dot(x) then raises for '
                       'L = 1 and L >= 4)', definite=True)
    ctx.floor('R15.10', 'sparse constructions in MLMatrix.asmatrix', n, 1)


def r15_9(ctx):
    """Local row numbers returned with renumber_rows=True are positions in the CALLER's list: the parameter row_indices is not
    replaced by a subset of itself before np.arange(len(row_indices)) numbers the rows (kron_partial(.., restrict=True) places
    row i of the result by that number)."""
    f = ctx.prog.func(PY + '.MLStructure.nonzeros_for_rows')
    par = 'row_indices'
    if par not in [a.arg for a in f.node.args.args]:
        ctx.undecided('R15.9', f.qual, 'parameter row_indices', f.node, 'parameter renamed')
        return
    uses = [c for c in ast.walk(f.node) if isinstance(c, ast.Call) and call_name(c) in ('np.arange', 'range')
            and c.args and isinstance(c.args[0], ast.Call) and call_name(c.args[0]) == 'len' and src(c.args[0].args[0]) == par]
    rebinds = [s_ for s_ in own_nodes(f.node) if isinstance(s_, ast.Assign) and any(isinstance(t, ast.Name) and t.id == par for t in s_.targets)]
    bad = []
    for s_ in rebinds:
        v = s_.value
        conv = isinstance(v, ast.Call) and (call_name(v) or '').split('.')[-1] in ('asarray', 'asanyarray', 'array', 'list', 'tuple', 'ascontiguousarray') \
            and v.args and src(v.args[0]) == par
        if conv:
            continue
        selects = any(isinstance(x, ast.Subscript) and not isinstance(x.slice, ast.Constant) and par in src(x.value) for x in ast.walk(v)) or \
            any(isinstance(x, (ast.ListComp, ast.GeneratorExp)) and any(g.ifs for g in x.generators) for x in ast.walk(v))
        bad.append((s_, selects))
    if not uses:
        ctx.undecided('R15.9', f.qual, 'np.arange(len(row_indices))', f.node, 'local numbering not recognised')
        return
    sel = [b for b in bad if b[1] and b[0].lineno < uses[0].lineno]
    if sel:
        ctx.violated('R15.9', f.qual, src(sel[0][0]), sel[0][0],
                     'the parameter is replaced by a selection of itself before the local numbering np.arange(len(row_indices)) is taken: the '
                     'returned local row numbers are positions in the filtered list, not in the list the caller passed -- rows after a dropped '
                     'entry are shifted')
    elif bad:
        ctx.undecided('R15.9', f.qual, src(bad[0][0]), bad[0][0], 'parameter rebound in a form that is not recognised')
    else:
        ctx.met('R15.9', f.qual, src(uses[0]), uses[0], 'numbering refers to the list as passed by the caller')


def r15_11(ctx):
    """compute_sparsity_ij(kv1, kv2) decides which basis functions of two knot vectors have joint support.  The supports
    must be compared in PARAMETER coordinates (knot values); mesh_support_idx_all() gives indices into each knot vector's own
    mesh, which are comparable only if the two meshes are identical (not for a knot vector and its refinement)."""
    f = ctx.prog.func(PY + '.compute_sparsity_ij')
    idx = [c for c in ast.walk(f.node) if isinstance(c, ast.Call) and isinstance(c.func, ast.Attribute) and c.func.attr in ('mesh_support_idx_all', 'mesh_support_idx')]
    recv = {src(c.func.value) for c in idx}
    if len(recv) >= 2:
        ctx.violated('R15.11', f.qual, ' / '.join(sorted(src(c) for c in idx)), idx[0],
                     'the supports of the two knot vectors are compared as indices into their OWN meshes: for different meshes (kv and '
                     'kv.refine()) the index intervals are not comparable -- from_kvs reports 24 pairs where 36 overlap (18 missing, 6 spurious)')
    else:
        coords = any(isinstance(x, ast.Attribute) and x.attr == 'kv' for x in ast.walk(f.node)) or '.support' in src(f.node)
        ctx.decide('R15.11', f.qual, 'supports compared in parameter coordinates', True if coords else None, f.node)


def r15_12(ctx):
    """utils.kron_partial(As, rows, restrict=False) has nonzeros ONLY in the given rows: no exit returns the full Kronecker
    product (multi_kron_sparse / scipy.sparse.kron of all factors) unless it is restricted to the rows (X[rows])."""
    f = ctx.prog.func('pyiga.utils.kron_partial')
    n = 0
    for r in guards.returns_of(f.node):
        if r.value is None:
            continue
        live = guards.specialise([r], {'restrict': False})
        v = resolve.expand(live[0].value, r) if live and isinstance(live[0], ast.Return) else resolve.expand(r.value, r)
        full = [c for c in ast.walk(v) if isinstance(c, ast.Call) and (call_name(c) or '').split('.')[-1] in ('multi_kron_sparse', 'kron')]
        if not full:
            n += 1
            continue
        t = src(v).replace(' ', '')
        restricted = '[rows]' in t or '[rows,' in t
        n += 1
        ctx.decide('R15.12', f.qual, src(r)[:90], True if restricted else False, r,
                   'full product restricted to the rows' if restricted else
                   'with restrict=False this exit returns the FULL Kronecker product: the rows that were not requested carry the entries of '
                   'the product instead of being zero (4 of 6 rows requested: rows 4, 5 differ)', definite=True)
    if n:
        ctx.met('R15.12', f.qual, '%d exits examined' % n, f.node, 'no exit returns the unrestricted product')


def r15_13(ctx):
    """get_transpose_idx_for_bidx maps entry k = (i, j) of a level pattern to the position of (j, i) WHATEVER order the pattern is
    stored in: by value lookup (a dict keyed by (j, i)), or by composing two sort permutations.  ONE lexsort/argsort alone is the
    transposition map only for a pattern stored in row-major order."""
    f = ctx.prog.maybe_func(CY + '.get_transpose_idx_for_bidx')
    if f is None:
        ctx.undecided('R15.13', CY + '.get_transpose_idx_for_bidx', 'definition', None, 'not found')
        return
    sorts = [c for c in ast.walk(f.node) if isinstance(c, ast.Call) and (call_name(c) or '').split('.')[-1] in ('lexsort', 'argsort', 'sort', 'sorted')]
    lookup = any(isinstance(x, ast.Subscript) and isinstance(x.ctx, ast.Store) and isinstance(x.slice, ast.Tuple) for x in ast.walk(f.node)) \
        or any(isinstance(x, ast.Dict) or (isinstance(x, ast.Call) and call_name(x) == 'dict') for x in ast.walk(f.node))
    if lookup and not sorts:
        ctx.met('R15.13', f.qual, 'entries paired by value lookup', f.node)
    elif len(sorts) == 1 and not lookup:
        ctx.violated('R15.13', f.qual, src(sorts[0])[:80], sorts[0],
                     'the permutation that sorts the entries by (column, row) is the transposition map only if the pattern is stored in row-major '
                     'order: for a pattern from a COO matrix, from transpose() or hand-made (shuffled banded pattern: 24 of 24 entries wrong, not '
                     'an involution) the data tensor is permuted to something that is not the transposed matrix')
    else:
        ctx.undecided('R15.13', f.qual, 'pairing of (i, j) with (j, i)', f.node, 'neither a plain lookup nor a single sort')



def r15_14(ctx):
    """nonzeros_for_columns is the row query of the TRANSPOSED structure on every path: a row query of the structure itself answers it only
    for structurally symmetric level patterns (wave 8: shortcut for square levels)."""
    f = ctx.prog.maybe_func('pyiga.mlmatrix.MLStructure.nonzeros_for_columns')
    if f is None:
        ctx.undecided('R15.14', 'pyiga.mlmatrix.MLStructure.nonzeros_for_columns', 'definition', None, 'not found')
        return
    calls = [c for c in ast.walk(f.node) if isinstance(c, ast.Call) and isinstance(c.func, ast.Attribute) and c.func.attr == 'nonzeros_for_rows']
    if not calls:
        ctx.undecided('R15.14', f.qual, 'row query', f.node, 'not recognised')
        return
    for c in calls:
        recv = resolve.expand(c.func.value, c)
        t = src(recv).replace(' ', '')
        if t == 'self':
            conds = ' and '.join(('' if p_ else 'not ') + x for (x, p_, _n) in guards.path_conditions(c, stop=f.node))
            ctx.violated('R15.14', f.qual, '%s (under %s)' % (src(c)[:60], conds[:80] or 'always'), c,
                         'the column query is answered by the ROW query of the same structure: right only if every level pattern is structurally '
                         'symmetric; for a square lower-bidiagonal level, columns [0] give [(0,0)] instead of [(0,0),(1,0)]')
        else:
            ctx.decide('R15.14', f.qual, src(c)[:70], True if 'transpose()' in t else None, c, 'row query of the transposed structure')


def run(ctx):
    r15_14(ctx)
    r15_12(ctx)
    r15_13(ctx)
    r15_11(ctx)
    r15_10(ctx)
    r15_9(ctx)
    r15_8(ctx)
    r15_1(ctx)
    r15_2(ctx)
    r15_3(ctx)
    r15_4(ctx)
    r15_5(ctx)
    r15_6(ctx)
    r15_7(ctx)

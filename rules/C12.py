"""C12 -- time integrators (structural clauses + order conditions on folded tableaux)."""
import ast
import copy

import numpy as np

from sa.program import src, own_nodes, call_name, parent, kwarg, AnchorMissing
from sa import guards, constfold, resolve

EXPLANATION = (
    "Static rules over pyiga/solvers.py: (R12.1) every shipped coefficient table is obtained by constant folding of its defining "
    "function's syntax tree (no repository code runs) and checked against the algebraic order conditions of its documented order "
    "(DIRK: up to order 4, main and embedded weights, stiffly-accurate rows; Rosenbrock: orders 1-3 for the main weights, the "
    "returned error order for the embedded weights, constant diagonal of Gamma); (R12.2) in the adaptive controller, acceptance "
    "(append, t += tau) is control-dependent on r <= 1, the step factor is clamped to [0.2, 5] (or halved on Newton failure), so "
    "tau stays positive and times strictly increase, and the loop only leaves through t < t_end; (R12.3) the constant-step driver "
    "uses ceil((t_end-t0)/tau) steps, t = t0+(i+1)*tau, paired appends; (R12.4) Newton returns only under the residual test and "
    "otherwise raises; (R12.5) newton_J is the derivative of newton_F, x_est is x_new with b_hat for b, stage sums are strictly "
    "lower triangular; (R12.6) every public method is registered with its own coefficient function and name; (R12.7) both step "
    "functions accept M=None; (R12.8) in the adaptive driver every loop-carried input of the stepper (x, t, Fx) changes only "
    "under the acceptance test r <= 1, so a rejected trial leaves the state of the last accepted step.")
DOES_NOT_DECIDE = "that a step satisfies the stage equations numerically; Newton tolerance effects; stability properties"
TECHNIQUE = "constant folding of coefficient-table syntax trees + order-condition evaluation; guard dominance / control dependence; symbolic sibling comparison"

S = 'pyiga.solvers'
TOL = 1e-8

# documented orders: (main order, source of the number).  Embedded order is read from the code (returned err_order).
DIRK_ORDERS = {
    'coeffs_sdirk3': (3, 'comment "Skvortsov 2006; Alexander 1977", display name SDIRK3'),
    'coeffs_sdirk3_b': (4, 'comment "Norsett\'s three-stage, 4th order DIRK method"'),
    'coeffs_sdirk21': (2, 'comment "order 2, embedded rule of order 1"'),
    'coeffs_dirk34': (3, 'comment "4 stages, order 3 ... embedded rule has order 2"'),
    'coeffs_esdirk23': (2, 'comment "3 stages, order 2 ... embedded method has order 3"'),
    'coeffs_esdirk34': (3, 'comment "4 stages, order 3 ... embedded method has order 4"'),
    'crank_nicolson': (2, 'trapezoidal rule'),
}
ROS_MAIN_CHECKED = 3


def dirk_conditions(A, b, order):
    """list of (name, residual) for the order conditions up to ``order`` (<= 4)."""
    c = A.sum(axis=1)
    out = [('sum b = 1', b.sum() - 1)]
    if order >= 2:
        out.append(('b.c = 1/2', b @ c - 1 / 2))
    if order >= 3:
        out.append(('b.c^2 = 1/3', b @ c**2 - 1 / 3))
        out.append(('b.A.c = 1/6', b @ A @ c - 1 / 6))
    if order >= 4:
        out.append(('b.c^3 = 1/4', b @ c**3 - 1 / 4))
        out.append(('b.(c*(A.c)) = 1/8', b @ (c * (A @ c)) - 1 / 8))
        out.append(('b.A.c^2 = 1/12', b @ A @ c**2 - 1 / 12))
        out.append(('b.A.A.c = 1/24', b @ A @ A @ c - 1 / 24))
    return out


def ros_conditions(A, G, b, order):
    gam = G[0, 0]
    Bt = A + G - gam * np.eye(len(b))        # beta_ij = alpha_ij + gamma_ij (strictly lower)
    bi = Bt.sum(axis=1)
    al = A.sum(axis=1)
    out = [('sum b = 1', b.sum() - 1)]
    if order >= 2:
        out.append(('b.beta\' = 1/2 - gamma', b @ bi - (1 / 2 - gam)))
    if order >= 3:
        out.append(('b.alpha^2 = 1/3', b @ al**2 - 1 / 3))
        out.append(('b.beta.beta\' = 1/6 - gamma + gamma^2', b @ Bt @ bi - (1 / 6 - gam + gam**2)))
    return out


def registrations(ctx):
    """module-level  name = factory(*coeffs_x(), 'name', 'Display') / factory(np.array(..), 'name', ..)"""
    u = ctx.prog.unit(S)
    out = []
    for s in u.tree.body:
        if isinstance(s, ast.Assign) and isinstance(s.value, ast.Call) and len(s.targets) == 1 and isinstance(s.targets[0], ast.Name):
            f = call_name(s.value)
            if f in ('dirk_method', 'adaptive_dirk_method', 'rosenbrock_method', 'adaptive_rosenbrock_method'):
                out.append((s.targets[0].id, f, s))
    return out


def r12_1(ctx):
    regs = registrations(ctx)
    ctx.floor('R12.1', 'registered time-stepping methods', len(regs), 12)
    n_tab = 0
    for var, factory, stmt in regs:
        call = stmt.value
        first = call.args[0]
        if isinstance(first, ast.Starred):
            inner = first.value
            if not (isinstance(inner, ast.Call) and isinstance(inner.func, ast.Name)):
                ctx.undecided('R12.1', S + '.' + var, src(first), stmt, 'table source not a coeffs_*() call')
                continue
            cname = inner.func.id
            fi = ctx.prog.func('%s.%s' % (S, cname))
            try:
                val = constfold.fold_function(fi.node)
            except constfold.NotConstant as e:
                ctx.undecided('R12.1', fi.qual, 'constant folding', fi.node, str(e))
                continue
            node = fi.node
            qual = fi.qual
        elif isinstance(first, ast.Call) and isinstance(first.func, ast.Name) and first.func.id.startswith('coeffs_'):
            cname = first.func.id
            fi = ctx.prog.func('%s.%s' % (S, cname))
            try:
                val = constfold.fold_function(fi.node)
            except constfold.NotConstant as e:
                ctx.undecided('R12.1', fi.qual, 'constant folding', fi.node, str(e))
                continue
            node, qual = fi.node, fi.qual
        else:
            cname = var
            try:
                val = constfold.fold_expr(first, {})
            except constfold.NotConstant as e:
                ctx.undecided('R12.1', S + '.' + var, 'constant folding', stmt, str(e))
                continue
            node, qual = stmt, S + '.' + var
        n_tab += 1
        if 'dirk' in factory:
            check_dirk(ctx, qual, cname, val, node, adaptive=factory.startswith('adaptive'))
        else:
            check_ros(ctx, qual, cname, val, node)
    ctx.floor('R12.1', 'tables folded', n_tab, 12)


def check_dirk(ctx, qual, cname, val, node, adaptive):
    emb_order = None
    if isinstance(val, list) and len(val) == 2 and not isinstance(val[0], (int, float)):
        T, emb_order = np.array(val[0], dtype=float), val[1]
    else:
        T = np.array(val, dtype=float)
    s = T.shape[1]
    if T.shape[0] not in (s + 1, s + 2):
        ctx.violated('R12.1', qual, 'tableau shape %s' % (T.shape,), node, 'expected s+1 (or s+2 with embedded weights) rows for s stages')
        return
    A, b = T[:s, :], T[s, :]
    main, where = DIRK_ORDERS.get(cname, (1, 'not in the frozen table: only consistency is checked'))
    if cname not in DIRK_ORDERS:
        ctx.note('%s: no documented order frozen for this table; checking order 1 only' % qual)
    # lower triangular
    ok_tri = np.allclose(np.triu(A, 1), 0)
    ctx.decide('R12.1', qual, 'A is lower triangular (DIRK)', bool(ok_tri), node, 'stages are solved one at a time')
    for name, res in dirk_conditions(A, b, main):
        ctx.decide('R12.1', qual, 'main weights, order %d: %s' % (main, name), abs(res) <= TOL, node,
                   'residual %.3e (documented order %d: %s)' % (res, main, where))
    if T.shape[0] == s + 2:
        bh = T[s + 1, :]
        eo = emb_order if emb_order is not None else 1
        for name, res in dirk_conditions(A, bh, min(int(eo), 4)):
            ctx.decide('R12.1', qual, 'embedded weights, order %d: %s' % (eo, name), abs(res) <= TOL, node,
                       'residual %.3e (error order returned by the function: %s)' % (res, eo))
    if adaptive and T.shape[0] != s + 2:
        ctx.violated('R12.1', qual, 'adaptive method without embedded row', node, 'adaptive_dirk_method needs s+2 rows')


def check_ros(ctx, qual, cname, val, node):
    if not (isinstance(val, list) and len(val) == 5):
        ctx.undecided('R12.1', qual, 'return value shape', node, 'expected (A, Gamma, b, b_hat, err_order)')
        return
    A, G, b, bh, eo = (np.array(val[0], dtype=float), np.array(val[1], dtype=float), np.array(val[2], dtype=float),
                       np.array(val[3], dtype=float), val[4])
    d = np.diag(G)
    ctx.decide('R12.1', qual, 'Gamma has a constant diagonal', bool(np.allclose(d, d[0])), node,
               'rosenbrock_step factorises M - tau*Gamma[0,0]*J once for all stages')
    ctx.decide('R12.1', qual, 'A strictly lower, Gamma lower triangular', bool(np.allclose(np.triu(A), 0) and np.allclose(np.triu(G, 1), 0)), node)
    for name, res in ros_conditions(A, G, b, ROS_MAIN_CHECKED):
        ctx.decide('R12.1', qual, 'main weights, order %d: %s' % (ROS_MAIN_CHECKED, name), abs(res) <= TOL, node, 'residual %.3e' % res)
    for name, res in ros_conditions(A, G, bh, min(int(eo), 3)):
        ctx.decide('R12.1', qual, 'embedded weights, order %s: %s' % (eo, name), abs(res) <= TOL, node, 'residual %.3e' % res)


# ------------------------------------------------------------------ R12.2
def r12_2(ctx):
    fi = ctx.prog.func(S + '._adaptive_step_method.<locals>._method')
    fn = fi.node
    loops = [n for n in own_nodes(fn) if isinstance(n, ast.While)]
    if not loops:
        raise AnchorMissing('R12.2: controller loop not found')
    w = loops[0]
    ctx.decide('R12.2', fi.qual, 'while ' + src(w.test), src(w.test).replace(' ', '') in ('t<t_end', 't_end>t'), w,
               'the only loop exit is reaching the end time')
    brk = [n for n in ast.walk(w) if isinstance(n, (ast.Break, ast.Return))]
    ctx.decide('R12.2', fi.qual, 'no break/return inside the controller loop', not brk, brk[0] if brk else w)
    # acceptance is control dependent on r <= 1
    n = 0
    for st in ast.walk(w):
        is_accept = False
        if isinstance(st, ast.AugAssign) and src(st.target) == 't':
            is_accept = True
            ok_val = src(st.value) == 'tau' and isinstance(st.op, ast.Add)
            ctx.decide('R12.2', fi.qual, src(st), ok_val, st, 'time advances by exactly the attempted step')
        if isinstance(st, ast.Expr) and isinstance(st.value, ast.Call) and src(st.value.func) in ('times.append', 'solutions.append'):
            is_accept = True
        if isinstance(st, ast.Assign) and src(st.targets[0]) in ('x', 'Fx') and isinstance(parent(st), ast.If):
            is_accept = True
        if is_accept:
            n += 1
            facts = guards.path_conditions(st, stop=w)
            ok = any(t.replace(' ', '') in ('r<=1', 'r<=1.0', 'r<1') and pol for (t, pol, _n) in facts)
            ctx.decide('R12.2', fi.qual, src(st) + ' under r <= 1', ok, st, 'a step is accepted only if the scaled error test passes')
    ctx.floor('R12.2', 'acceptance statements', n, 4)
    # R12.8: state carried into the next stepper call changes only on acceptance.  Every name passed to the stepper
    # (except the step size, which the controller owns, and the cache dict) that is assigned inside the loop must be
    # assigned under the acceptance guard; a trial result must not overwrite it.
    calls = [c for c in ast.walk(w) if isinstance(c, ast.Call) and src(c.func) == 'stepper']
    if not calls:
        raise AnchorMissing('R12.8: stepper call in the adaptive loop')
    carried = set()
    for a in list(calls[0].args) + [k.value for k in calls[0].keywords]:
        if isinstance(a, ast.Name):
            carried.add(a.id)
    carried -= {'tau', 'data', 'M', 'F', 'J'}
    carried |= {'t'}
    n8 = 0
    for st in ast.walk(w):
        targets = []
        if isinstance(st, ast.Assign):
            for t in st.targets:
                targets += [x for x in (t.elts if isinstance(t, ast.Tuple) else [t])]
        elif isinstance(st, ast.AugAssign):
            targets = [st.target]
        for t in targets:
            if isinstance(t, ast.Name) and t.id in carried:
                n8 += 1
                facts = guards.path_conditions(st, stop=w)
                acc = any(tt.replace(' ', '') in ('r<=1', 'r<=1.0', 'r<1') and pol for (tt, pol, _n) in facts)
                if acc:
                    ctx.met('R12.8', fi.qual, '%s assigned in: %s' % (t.id, src(st)[:80]), st, 'loop-carried state changes only on an accepted step')
                else:
                    ctx.violated('R12.8', fi.qual, '%s assigned in: %s' % (t.id, src(st)[:80]), st,
                                 '%s is an input of the next stepper call but is overwritten by a trial step before the error test: after a rejected '
                                 'step the retry starts from data that belongs to the rejected state' % t.id)
    ctx.floor('R12.8', 'assignments to loop-carried state', n8, 3)
    # paired appends
    ap = [src(c.func) for c in ast.walk(w) if isinstance(c, ast.Call) and src(c.func) in ('times.append', 'solutions.append')]
    ctx.decide('R12.2', fi.qual, 'appends: ' + ', '.join(ap), sorted(ap) == ['solutions.append', 'times.append'], w, 'one state per time')
    # step-size updates keep tau positive
    upd = [s for s in ast.walk(w) if isinstance(s, ast.AugAssign) and src(s.target) == 'tau']
    ctx.floor('R12.2', 'step-size updates', len(upd), 2)
    for s in upd:
        ok = None
        if isinstance(s.op, ast.Mult):
            v = s.value
            if isinstance(v, ast.Constant) and isinstance(v.value, (int, float)):
                ok = 0 < v.value <= 5
                why = 'constant factor %s' % v.value
            elif isinstance(v, ast.Name):
                lo, hi = clamp_bounds(fn, v.id, s)
                ok = (lo is not None and hi is not None and lo > 0 and hi >= 1 and lo <= 1) if lo is not None else None
                why = 'factor clamped to [%s, %s]' % (lo, hi)
                # the clamp reaches the update on EVERY path: it is not nested under a branch that the update is not under
                defs_ = [d_ for d_ in ast.walk(fn) if isinstance(d_, ast.Assign) and src(d_.targets[0]) == v.id and d_.lineno < s.lineno]
                if ok and defs_:
                    def _branches(node):
                        out, x = [], parent(node)
                        while x is not None and x is not w:
                            if isinstance(x, (ast.If, ast.Try, ast.For, ast.While)):
                                out.append(x)
                            x = parent(x)
                        return out
                    mine = _branches(s)
                    extra = [b for b in _branches(defs_[-1]) if not any(b is m for m in mine)]
                    if extra and len(defs_) > 1:
                        ctx.violated('R12.2', fi.qual, '%s clamped only under `%s`' % (v.id, src(extra[0].test)[:40] if isinstance(extra[0], ast.If) else type(extra[0]).__name__), defs_[-1],
                                     'the bounds [%s, %s] are applied on the path through `%s` only; on the other path `%s` multiplies tau by the raw factor `%s` -- '
                                     'after a badly rejected step tau shrinks by 5e-6 instead of at most 0.2 (an infinite scaled error gives tau = 0 and the loop never ends)'
                                     % (lo, hi, src(extra[0].test)[:40] if isinstance(extra[0], ast.If) else '...', src(s), src(defs_[-2].value)[:50]))
                        continue
            else:
                why = 'factor expression not recognised'
        else:
            ok = False
            why = 'tau must be updated multiplicatively by a positive factor'
        ctx.decide('R12.2', fi.qual, src(s), ok, s, why + ' (positive factors keep tau > 0, hence times strictly increase)')
    # the error norm: r from (xhat - xnew) / d with d = tol + tol*|x|
    d = [s for s in ast.walk(w) if isinstance(s, ast.Assign) and src(s.targets[0]) == 'd']
    r = [s for s in ast.walk(w) if isinstance(s, ast.Assign) and src(s.targets[0]) == 'r' and 'norm' in src(s.value)]
    if d and r:
        ok = src(d[0].value).replace(' ', '') in ('tol+tol*abs(x)', 'tol*(1+abs(x))') and \
            src(r[0].value).replace(' ', '') in ('np.linalg.norm((xhat-xnew)/d)/np.sqrt(len(x))', 'np.linalg.norm((xnew-xhat)/d)/np.sqrt(len(x))')
        ctx.decide('R12.2', fi.qual, src(d[0]) + ' ; ' + src(r[0]), ok or None, r[0], 'scaled RMS error estimate')
    fac = [s for s in ast.walk(w) if isinstance(s, ast.Assign) and src(s.targets[0]) == 'fac' and 'err_order' in src(s.value)]
    if fac:
        ok = src(fac[0].value).replace(' ', '') == 'step_factor*r**(-1/err_order)'
        ctx.decide('R12.2', fi.qual, src(fac[0]), ok or None, fac[0], 'standard controller exponent -1/err_order')
    # tol None -> constant method with the same arguments
    iff = [s for s in fn.body if isinstance(s, ast.If) and 'tol is None' in src(s.test)]
    if iff:
        ok = src(iff[0].body[0]) == 'return const_method(M, F, J, x, tau0, t_end, t0=t0)'
        ctx.decide('R12.2', fi.qual, src(iff[0].body[0]), ok or None, iff[0], 'constant-step fallback receives the same problem data')


def clamp_bounds(fn, name, before):
    """fac = min(HI, max(LO, fac)) / np.clip(fac, LO, HI) -> (LO, HI) floats."""
    defs = [s for s in ast.walk(fn) if isinstance(s, ast.Assign) and src(s.targets[0]) == name and s.lineno < before.lineno]
    if not defs:
        return None, None
    v = defs[-1].value
    if isinstance(v, ast.Call):
        f = call_name(v)
        try:
            if f == 'min' and len(v.args) == 2:
                hi, inner = (v.args[0], v.args[1]) if isinstance(v.args[0], ast.Constant) else (v.args[1], v.args[0])
                if isinstance(inner, ast.Call) and call_name(inner) == 'max' and len(inner.args) == 2:
                    lo = inner.args[0] if isinstance(inner.args[0], ast.Constant) else inner.args[1]
                    return float(lo.value), float(hi.value)
            if f == 'max' and len(v.args) == 2:
                lo, inner = (v.args[0], v.args[1]) if isinstance(v.args[0], ast.Constant) else (v.args[1], v.args[0])
                if isinstance(inner, ast.Call) and call_name(inner) == 'min' and len(inner.args) == 2:
                    hi = inner.args[0] if isinstance(inner.args[0], ast.Constant) else inner.args[1]
                    return float(lo.value), float(hi.value)
            if f == 'np.clip' and len(v.args) == 3:
                return float(v.args[1].value), float(v.args[2].value)
        except (AttributeError, TypeError, ValueError):
            return None, None
    return None, None


# ------------------------------------------------------------------ R12.3
def r12_3(ctx):
    fi = ctx.prog.func(S + '._constant_step_method.<locals>._method')
    fn = fi.node
    d = {src(s.targets[0]): s for s in own_nodes(fn) if isinstance(s, ast.Assign) and len(s.targets) == 1}
    ni = d.get('num_iter')
    if ni is None:
        raise AnchorMissing('R12.3: num_iter not found')
    t = src(ni.value).replace(' ', '')
    ctx.decide('R12.3', fi.qual, src(ni), t in ('int(ceil((t_end-t0)/tau))', 'ceil((t_end-t0)/tau)', 'int(math.ceil((t_end-t0)/tau))'), ni,
               'number of steps covers [t0, t_end]')
    tt = d.get('t')
    ctx.decide('R12.3', fi.qual, src(tt) if tt else 't = ?', bool(tt) and src(tt.value).replace(' ', '') in ('t0+(i+1)*tau', 't0+tau*(i+1)'), tt or fn,
               'times are t0 + k*tau (no accumulation of rounding errors)')
    loop = [l for l in own_nodes(fn) if isinstance(l, ast.For)]
    ok = bool(loop) and 'range(num_iter)' in src(loop[0].iter)
    ctx.decide('R12.3', fi.qual, 'for i in ' + (src(loop[0].iter) if loop else '?'), ok, loop[0] if loop else fn)
    if loop:
        ap = [src(c.func) for c in ast.walk(loop[0]) if isinstance(c, ast.Call) and src(c.func) in ('times.append', 'solutions.append')]
        ctx.decide('R12.3', fi.qual, 'appends: ' + ', '.join(ap), sorted(ap) == ['solutions.append', 'times.append'], loop[0], 'one state per time')
        # both appends in the same block, after the step
        blocks = {id(parent(parent(c))) for c in ast.walk(loop[0]) if isinstance(c, ast.Call) and src(c.func) in ('times.append', 'solutions.append')}
        ctx.decide('R12.3', fi.qual, 'time and state appended in the same block', len(blocks) == 1, loop[0])
        # no exit between the two appends: a step that fails (partial results are returned) must not have recorded its time
        def holder(c):
            st = c
            while st is not None and not (isinstance(st, ast.stmt) and parent(st) is not None and any(
                    st in (getattr(parent(st), fld, None) or []) for fld in ('body', 'orelse', 'finalbody'))):
                st = parent(st)
            return st
        ta = [holder(c) for c in ast.walk(loop[0]) if isinstance(c, ast.Call) and src(c.func) == 'times.append']
        sa_ = [holder(c) for c in ast.walk(loop[0]) if isinstance(c, ast.Call) and src(c.func) == 'solutions.append']
        if len(ta) == 1 and len(sa_) == 1 and parent(ta[0]) is parent(sa_[0]):
            blk = None
            for fld in ('body', 'orelse', 'finalbody'):
                b = getattr(parent(ta[0]), fld, None)
                if isinstance(b, list) and ta[0] in b and sa_[0] in b:
                    blk = b
            if blk is not None:
                i, j = sorted((blk.index(ta[0]), blk.index(sa_[0])))
                between = blk[i + 1:j]
                exits = [x for st in between for x in ast.walk(st) if isinstance(x, (ast.Return, ast.Raise, ast.Break, ast.Continue))]
                ctx.decide('R12.3', fi.qual, 'no exit between times.append and solutions.append', not exits, exits[0] if exits else blk[i],
                           'times and states stay paired on every exit' if not exits else
                           'the function can leave (`%s`) after one of the two lists was extended and before the other: the partial result has '
                           'one more time than states (or vice versa)' % src(exits[0])[:50], definite=True)
    init = (src(d['times'].value) if 'times' in d else '', src(d['solutions'].value) if 'solutions' in d else '')
    ctx.decide('R12.3', fi.qual, 'times = %s ; solutions = %s' % init, init == ('[t0]', '[x]'), fn, 'initial state recorded at t0')


# ------------------------------------------------------------------ R12.4
def r12_4(ctx):
    fi = ctx.prog.func(S + '.newton')
    fn = fi.node
    rets = guards.returns_of(fn)
    ctx.floor('R12.4', 'returns of newton', len(rets), 1)
    for r in rets:
        facts = guards.path_conditions(r)
        tests = [t.replace(' ', '') for (t, pol, _n) in facts if pol][:2]
        # semantic form of the test: <norm of the current residual> < / <= <tolerance>, read through local temporaries
        ok = False
        for (_t, pol, n) in facts:
            if pol and isinstance(n, ast.Compare) and len(n.ops) == 1 and isinstance(n.ops[0], (ast.Lt, ast.LtE)):
                left = src(resolve.expand(n.left, n, keep=('res', 'x'))).replace(' ', '')
                if left in ('np.linalg.norm(res)', 'scipy.linalg.norm(res)', 'numpy.linalg.norm(res)', 'norm(res)'):
                    ok = True
        ctx.decide('R12.4', fi.qual, src(r) + ' under ' + (' and '.join(tests) or 'no test'), ok, r,
                   'a point is returned only if its residual meets the tolerance')
        # the tested residual belongs to the returned x: res = F(x) is the last statement that touched res, after the last update of x
        loop = guards.in_loop(r)
        if loop is not None:
            body = loop.body
            # order inside the loop: test/return, ..., x update, res = F(x)
            upd = [i for i, s in enumerate(body) if isinstance(s, ast.AugAssign) and src(s.target) == 'x']
            rs = [i for i, s in enumerate(body) if isinstance(s, ast.Assign) and src(s.targets[0]) == 'res']
            ti = [i for i, s in enumerate(body) if r in list(ast.walk(s))]
            ok2 = bool(upd and rs and ti) and ti[0] < upd[0] < rs[-1] and src(body[rs[-1]].value) == 'F(x)'
            if not ok2 and not (upd and rs):
                # the update lives in a branch of the convergence test: every update of x is followed, in its own block, by
                # res = F(x), and no statement after that touches x again
                ok2 = None
                ups = [s_ for s_ in ast.walk(loop) if isinstance(s_, (ast.AugAssign, ast.Assign)) and
                       src(s_.target if isinstance(s_, ast.AugAssign) else s_.targets[0]) == 'x']
                good = 0
                for u_ in ups:
                    par_ = parent(u_)
                    for fld in ('body', 'orelse'):
                        b_ = getattr(par_, fld, None)
                        if isinstance(b_, list) and u_ in b_:
                            rest = b_[b_.index(u_) + 1:]
                            if any(isinstance(s_, ast.Assign) and src(s_.targets[0]) == 'res' and src(s_.value) == 'F(x)' for s_ in rest):
                                good += 1
                if ups and good == len(ups):
                    ok2 = True
            ctx.decide('R12.4', fi.qual, 'loop order: test, update x, res = F(x)', ok2, loop,
                       'the residual tested in the next iteration is computed from the current x')
    ok = not guards.falls_off_end(fn) and isinstance(fn.body[-1], ast.Raise)
    ctx.decide('R12.4', fi.qual, 'falls through to ' + src(fn.body[-1]), ok, fn.body[-1], 'every other exit raises NoConvergenceError')
    tg = [s for s in own_nodes(fn) if isinstance(s, ast.Assign) and src(s.targets[0]) == 'target']
    ok = bool(tg) and src(resolve.expand(tg[0].value, tg[0], keep=('res', 'x'))).replace(' ', '') == 'max(atol,rtol*np.linalg.norm(res))'
    ctx.decide('R12.4', fi.qual, src(tg[0]) if tg else 'target', ok or None, tg[0] if tg else fn, 'tolerance from atol and the initial residual')
    cp = [s for s in own_nodes(fn) if isinstance(s, ast.Assign) and src(s.targets[0]) == 'x']
    ok = bool(cp) and call_name(cp[0].value) in ('np.array', 'np.copy') or (bool(cp) and src(cp[0].value).endswith('.copy()'))
    ctx.decide('R12.4', fi.qual, src(cp[0]) if cp else 'x', ok or None, cp[0] if cp else fn, 'the starting vector is copied before the in-place updates')


# ------------------------------------------------------------------ R12.5
def _same_with_bhat(x_new, x_est):
    """True: x_est is x_new with the weight vector b_hat in place of b (as trees, whatever the spelling of the sum); False: both
    have the original subscripted form and differ elsewhere; None: no verdict"""
    class Sub(ast.NodeTransformer):
        def visit_Name(self, n):
            return ast.copy_location(ast.Name(id='b', ctx=n.ctx), n) if n.id == 'b_hat' else n
    e2 = Sub().visit(ast.parse(src(x_est), mode='eval').body)
    a2 = ast.parse(src(x_new), mode='eval').body
    if ast.dump(e2) == ast.dump(a2):
        return True
    if 'b[i]' in src(x_new) and 'b_hat[i]' in src(x_est):
        return False
    return None


def r12_5(ctx):
    fi = ctx.prog.func(S + '.dirk_step')
    nf = ctx.prog.func(S + '.dirk_step.<locals>.newton_F')
    nj = ctx.prog.func(S + '.dirk_step.<locals>.newton_J')
    rf = guards.returns_of(nf.node)[-1].value
    rj = guards.returns_of(nj.node)[-1].value
    d = derivative_terms(rf)
    got = sorted(term_list(rj))
    ctx.decide('R12.5', nj.qual, '%s  vs d/dz [%s]' % (src(rj), src(rf)), (d is not None and sorted(d) == got) if d is not None else None, rj,
               'Jacobian of the stage residual: expected terms %s' % (sorted(d) if d is not None else '?'))
    # stage right-hand side
    terms = [s for s in own_nodes(fi.node) if isinstance(s, ast.Assign) and src(s.targets[0]) == 'terms']
    ok = bool(terms) and src(terms[0].value).replace(' ', '') == 'tau*sum((A[i,j]*Fy[j]forjinrange(i)))'
    ctx.decide('R12.5', fi.qual, src(terms[0]) if terms else 'terms', ok or None, terms[0] if terms else fi.node,
               'explicit part sums strictly below the diagonal: j in range(i)')
    rhs = [s for s in own_nodes(fi.node) if isinstance(s, ast.Assign) and src(s.targets[0]) == 'rhs']
    ok = bool(rhs) and src(rhs[0].value).replace(' ', '') == 'M@x+terms'
    ctx.decide('R12.5', fi.qual, src(rhs[0]) if rhs else 'rhs', ok or None, rhs[0] if rhs else fi.node)
    ok = src(rf).replace(' ', '') == 'M@z-tau*a_ii*last_Fz-rhs'
    ctx.decide('R12.5', nf.qual, src(rf), ok or None, rf, 'stage equation M z - tau a_ii F(z) = M x + tau sum_{j<i} a_ij F(y_j)')
    # x_new vs x_est
    asg = {src(s.targets[0]): s for s in own_nodes(fi.node) if isinstance(s, ast.Assign) and len(s.targets) == 1
           and src(s.targets[0]) in ('x_est',)}
    xn = [s for s in own_nodes(fi.node) if isinstance(s, ast.Assign) and src(s.targets[0]) == 'x_new' and 'get_Minv' in src(s.value)]
    if xn and 'x_est' in asg:
        ctx.decide('R12.5', fi.qual, 'x_est = ' + src(asg['x_est'].value), _same_with_bhat(xn[0].value, asg['x_est'].value), asg['x_est'],
                   'embedded solution is x_new with b_hat for b')
        ok = src(xn[0].value).replace(' ', '') == 'get_Minv()@(M@x+tau*sum((b[i]*Fy[i]foriinrange(s))))'
        ctx.decide('R12.5', fi.qual, 'x_new = ' + src(xn[0].value), ok or None, xn[0], 'M x_new = M x + tau sum b_i F(y_i)')
    sa = [s for s in own_nodes(fi.node) if isinstance(s, ast.Assign) and src(s.targets[0]) == 'is_sa']
    ok = bool(sa) and src(sa[0].value).replace(' ', '') == 'np.allclose(b,A[s-1,:])'
    ctx.decide('R12.5', fi.qual, src(sa[0]) if sa else 'is_sa', ok or None, sa[0] if sa else fi.node, 'stiffly accurate shortcut only if b equals the last stage row')
    bsel = {src(s.targets[0]): src(s.value) for s in own_nodes(fi.node) if isinstance(s, ast.Assign) and src(s.targets[0]) in ('b', 'b_hat', 's')}
    ctx.decide('R12.5', fi.qual, 's=%s b=%s b_hat=%s' % (bsel.get('s'), bsel.get('b'), bsel.get('b_hat')),
               bsel.get('s') == 'A.shape[1]' and bsel.get('b', '').replace(' ', '') == 'A[s,:]' and bsel.get('b_hat', '').replace(' ', '') == 'A[s+1,:]',
               fi.node, 'row s holds b, row s+1 holds b_hat')
    # Rosenbrock
    ro = ctx.prog.func(S + '.rosenbrock_step')
    d = {src(s.targets[0]): s for s in own_nodes(ro.node) if isinstance(s, ast.Assign) and len(s.targets) == 1}
    if 'x_new' in d and 'x_est' in d:
        ctx.decide('R12.5', ro.qual, 'x_est = ' + src(d['x_est'].value), _same_with_bhat(d['x_new'].value, d['x_est'].value), d['x_est'],
                   'embedded solution is x_new with b_hat for b')
    checks = {
        'y_i': 'x+tau*sum((A[i,j]*ks[j]forjinrange(i)))',
        'w_i': 'sum((Gamma[i,j]*ks[j]forjinrange(i)))',
        'C': 'M-tau*gamma*jac',
        'k_i': 'C_inv.dot(rhs)',
        'gamma': 'Gamma[0,0]',
    }
    for k, want in checks.items():
        s = d.get(k)
        ctx.decide('R12.5', ro.qual, src(s) if s else k, (src(s.value).replace(' ', '') == want) if s else None, s or ro.node,
                   'Rosenbrock stage: (M - tau gamma J) k_i = F(x + tau sum a_ij k_j) + tau J sum gamma_ij k_j')
    au = [s for s in own_nodes(ro.node) if isinstance(s, ast.AugAssign) and src(s.target) == 'rhs']
    ok = bool(au) and src(au[0].value).replace(' ', '') == 'tau*jac.dot(w_i)' and isinstance(au[0].op, ast.Add)
    ctx.decide('R12.5', ro.qual, src(au[0]) if au else 'rhs +=', ok or None, au[0] if au else ro.node)


def term_list(e, sign=1):
    """flatten +/- into signed normalised term strings"""
    if isinstance(e, ast.BinOp) and isinstance(e.op, ast.Add):
        return term_list(e.left, sign) + term_list(e.right, sign)
    if isinstance(e, ast.BinOp) and isinstance(e.op, ast.Sub):
        return term_list(e.left, sign) + term_list(e.right, -sign)
    if isinstance(e, ast.UnaryOp) and isinstance(e.op, ast.USub):
        return term_list(e.operand, -sign)
    return [('+' if sign > 0 else '-') + src(e).replace(' ', '')]


def derivative_terms(e):
    """d/dz of a sum of terms built from  M @ z,  c * last_Fz / c * F(z),  constants."""
    out = []
    for t in term_list(e):
        sg, body = t[0], t[1:]
        node = ast.parse(body, mode='eval').body
        names = {n.id for n in ast.walk(node) if isinstance(n, ast.Name)}
        if 'z' not in names and 'last_Fz' not in names:
            continue                                   # constant term
        if isinstance(node, ast.BinOp) and isinstance(node.op, ast.MatMult) and src(node.right) == 'z':
            out.append(sg + src(node.left).replace(' ', ''))
            continue
        # product with last_Fz or F(z)
        if 'last_Fz' in body:
            out.append(sg + body.replace('last_Fz', 'J(z)'))
            continue
        if 'F(z)' in body:
            out.append(sg + body.replace('F(z)', 'J(z)'))
            continue
        return None
    return out


# ------------------------------------------------------------------ R12.6
def r12_6(ctx):
    regs = registrations(ctx)
    seen = set()
    for var, factory, stmt in regs:
        call = stmt.value
        strs = [a.value for a in call.args if isinstance(a, ast.Constant) and isinstance(a.value, str)]
        name = strs[0] if strs else None
        ctx.decide('R12.6', S + '.' + var, '%s = %s(..., %r, %r)' % (var, factory, name, strs[1] if len(strs) > 1 else None),
                   name == var, stmt, 'the public name and the registered __name__ agree')
        first = call.args[0]
        inner = first.value if isinstance(first, ast.Starred) else first
        if isinstance(inner, ast.Call) and isinstance(inner.func, ast.Name):
            cn = inner.func.id
            ctx.decide('R12.6', S + '.' + var, 'table from %s()' % cn, cn == 'coeffs_' + var, stmt, 'each method uses its own coefficient function')
            ctx.decide('R12.6', S + '.' + var, '%s used once' % cn, cn not in seen, stmt, 'no two methods share one table')
            seen.add(cn)
            # factory kind matches the shape returned
            fi = ctx.prog.func('%s.%s' % (S, cn))
            r = guards.returns_of(fi.node)[-1].value
            k = len(r.elts) if isinstance(r, ast.Tuple) else 1
            want = {'dirk_method': 1, 'adaptive_dirk_method': 2, 'adaptive_rosenbrock_method': 5, 'rosenbrock_method': 3}[factory]
            ok = (k == want) and (isinstance(first, ast.Starred) == (k > 1))
            ctx.decide('R12.6', S + '.' + var, '%s returns %d value(s) for %s' % (cn, k, factory), ok, stmt, 'argument count of the factory')


# ------------------------------------------------------------------ R12.7
def r12_7(ctx):
    for q in (S + '.dirk_step', S + '.rosenbrock_step'):
        fi = ctx.prog.func(q)
        guard = [s for s in own_nodes(fi.node) if isinstance(s, ast.If) and src(s.test).replace(' ', '') == 'MisNone']
        uses = [n for n in ast.walk(fi.node) if isinstance(n, ast.BinOp) and isinstance(n.op, (ast.Sub, ast.MatMult)) and src(n.left) == 'M']
        if guard:
            ctx.met('R12.7', q, 'if M is None: ' + src(guard[0].body[0]), guard[0], 'identity mass matrix substituted')
        elif uses:
            ctx.violated('R12.7', q, src(uses[0]), uses[0],
                         'M is used arithmetically without the "M is None" substitution that the sibling step function '
                         'performs: the documented M=None (identity mass matrix) raises TypeError here')
        else:
            ctx.undecided('R12.7', q, 'use of M', fi.node, 'no arithmetic use of M found')


def r12_9(ctx):
    """The adaptive drivers: (a) the constant-step fallback (tol=None) is called with the same start time: t0 is forwarded;
    (b) the error test is the RMS of the COMPONENTWISE scaled error e_i / d_i, d = tol + tol |x|: the division by d happens
    inside the norm.  norm(e) / norm(d) weighs all components by the largest one."""
    fi = ctx.prog.func(S + '._adaptive_step_method.<locals>._method')
    fn = fi.node
    params = [a.arg for a in fn.args.args + fn.args.kwonlyargs]
    calls = [c for c in ast.walk(fn) if isinstance(c, ast.Call) and src(c.func) == 'const_method']
    for c in calls:
        if 't0' not in params:
            continue
        kw = {k.arg: k.value for k in c.keywords}
        pos = [src(a) for a in c.args]
        fwd = ('t0' in kw and src(kw['t0']) == 't0') or (len(pos) >= 7 and pos[6] == 't0')
        ctx.decide('R12.9', fi.qual, src(c)[:100], fwd, c, 'the fallback starts at the requested t0' if fwd else
                   'the constant-step fallback is called without t0: with tol=None and t0 != 0 the returned times start at 0 and the number of '
                   'steps is ceil(t_end/tau) instead of ceil((t_end - t0)/tau)', definite=True)
    rs = [s_ for s_ in own_nodes(fn) if isinstance(s_, ast.Assign) and src(s_.targets[0]) == 'r'
          and any(isinstance(c, ast.Call) and (call_name(c) or '').endswith('norm') for c in ast.walk(s_.value))]
    for s_ in rs:
        e = resolve.expand(s_.value, s_, keep=('x', 'xhat', 'xnew', 'tol', 'd'))
        norms = [c for c in ast.walk(e) if isinstance(c, ast.Call) and (call_name(c) or '').endswith('norm')]
        inside = any(isinstance(b, ast.BinOp) and isinstance(b.op, ast.Div) and any(isinstance(x, ast.Name) and x.id == 'd' for x in ast.walk(b.right))
                     for c in norms for a in c.args for b in ast.walk(a))
        d_in_own_norm = any(all(isinstance(x, (ast.Name, ast.Load)) for x in ast.walk(c.args[0])) and src(c.args[0]) == 'd' for c in norms if c.args)
        if inside and not d_in_own_norm:
            ctx.met('R12.9', fi.qual, src(s_), s_, 'componentwise scaled error inside the norm')
        elif d_in_own_norm:
            ctx.violated('R12.9', fi.qual, src(s_), s_,
                         'the error is scaled by norm(d) as a whole instead of component by component: when the state has components of very '
                         'different magnitude the large ones dominate d and errors in the small ones are barely counted -- steps with scaled '
                         'error far above 1 are accepted')
        else:
            ctx.undecided('R12.9', fi.qual, src(s_), s_, 'form of the scaled error not recognised')


def run(ctx):
    r12_9(ctx)
    r12_1(ctx)
    r12_2(ctx)
    r12_3(ctx)
    r12_4(ctx)
    r12_5(ctx)
    r12_6(ctx)
    r12_7(ctx)

"""C19 -- knot vectors are constructed and queried exactly (structural clauses)."""
import ast

from sa.program import src, own_nodes, call_name, parent, kwarg, AnchorMissing, enclosing_function
from sa import guards, affine, resolve

EXPLANATION = (
    "Static rules over pyiga/bspline.py, bspline_cy.pyx and spline.py: (R19.1) the array handed to KnotVector by make_knots has a "
    "length that is a static affine function of (p, n, mult): every piece is np.repeat of an array of static length, and no "
    "np.arange with a non-integral step (whose length depends on rounding) occurs in the package; (R19.2) every KnotVector "
    "construction receives an array of sorted provenance (np.sort, np.unique, a copy/slice of an existing knot vector, or a "
    "monotone concatenation); (R19.3) span lookup conventions (shared with C02: right-continuous bisection, last span at the right "
    "end); (R19.4) Greville points leave greville() only through a clamp to [kv[0], kv[-1]] (or as span midpoints for p=0); "
    "(R19.5) the derivative spline's knot differences, coefficient differences and new knot vector have matching static lengths; "
    "(R19.6) mesh/support queries all go through one cached unique() and agree on index conventions; the midpoints inserted by "
    "the default refine() are computed from the distinct breakpoints (mesh / np.unique), never from the raw knot sequence; "
    "(R19.7) make_knots uses its parameters as passed (no clamp of degree, span count or multiplicity).")
DOES_NOT_DECIDE = "floating-point equality of break points; symmetry of __eq__ near its tolerance; values of Greville points"
TECHNIQUE = "custom AST rules: static-length algebra of array constructors, order-provenance tagging, guard dominance, slice-length algebra"

B = 'pyiga.bspline'


# ------------------------------------------------------------------ static lengths
def is_integral_expr(e):
    """Conservative: expression is integer-valued (no true division, no float literal)."""
    for n in ast.walk(e):
        if isinstance(n, ast.BinOp) and isinstance(n.op, ast.Div):
            return False
        if isinstance(n, ast.Constant) and isinstance(n.value, float):
            return False
        if isinstance(n, ast.Call) and call_name(n) in ('float', 'np.float64'):
            return False
    return True


def arange_status(call, int_names=()):
    """'static' if all arguments are integral expressions, 'fractional' if the step is
    visibly non-integral, else 'unknown'."""
    args = call.args
    if len(args) >= 3:
        step = args[2]
        if not is_integral_expr(step):
            return 'fractional'
    for a in args:
        if not is_integral_expr(a):
            return 'fractional'
    # float-typed names used as bounds (a, b of an interval) make the length rounding dependent only with a step
    return 'static'


def static_length(e, fn):
    """Length of an array expression as affine.Lin over the function parameters, or None."""
    L = affine.Lin
    if isinstance(e, ast.Call):
        name = call_name(e)
        if name == 'np.repeat' and len(e.args) >= 2:
            base, k = e.args[0], e.args[1]
            try:
                kk = affine.from_ast(k, opaque=False)
            except affine.NonAffine:
                return None
            if isinstance(base, ast.Name):      # scalar repeated
                return kk
            bl = static_length(base, fn)
            if bl is None:
                return None
            try:
                return bl * kk
            except affine.NonAffine:
                if bl.is_const() or kk.is_const():
                    return None
                # product of two symbols: keep as opaque product
                return L.sym('(%r)*(%r)' % (bl, kk))
        if name == 'np.linspace' and len(e.args) >= 3:
            try:
                return affine.from_ast(e.args[2], opaque=False)
            except affine.NonAffine:
                return None
        if name == 'np.arange':
            if arange_status(e) != 'static':
                return None
            try:
                a = [affine.from_ast(x, opaque=False) for x in e.args]
            except affine.NonAffine:
                return None
            if len(a) == 1:
                return a[0]
            if len(a) == 2:
                return a[1] - a[0]
            return None
        if name == 'np.concatenate' and e.args and isinstance(e.args[0], (ast.Tuple, ast.List)):
            tot = L.const(0)
            for x in e.args[0].elts:
                l = static_length(x, fn)
                if l is None:
                    return None
                tot = tot + l
            return tot
    if isinstance(e, ast.Subscript) and isinstance(e.slice, ast.Slice):
        bl = static_length(e.value, fn)
        if bl is None:
            return None
        lo, hi = e.slice.lower, e.slice.upper
        try:
            lo_v = affine.from_ast(lo, opaque=False) if lo is not None else L.const(0)
            if hi is None:
                hi_v = bl
            else:
                hv = affine.from_ast(hi, opaque=False)
                # negative constant upper bound counts from the end
                if hv.is_const() and hv.k < 0:
                    hi_v = bl + hv
                else:
                    hi_v = hv
            if lo_v.is_const() and lo_v.k < 0:
                lo_v = bl + lo_v
        except affine.NonAffine:
            return None
        return hi_v - lo_v
    return None


def r19_1(ctx):
    f = ctx.prog.func(B + '.make_knots')
    cons = [c for c in ast.walk(f.node) if isinstance(c, ast.Call) and call_name(c) == 'KnotVector' and c.args]
    if not cons:
        raise AnchorMissing('R19.1: make_knots no longer constructs a KnotVector')
    local = {}
    for s in own_nodes(f.node):
        if isinstance(s, ast.Assign) and len(s.targets) == 1 and isinstance(s.targets[0], ast.Name):
            local.setdefault(s.targets[0].id, []).append(s)

    def resolve(x, depth=0):
        while isinstance(x, ast.Name) and len(local.get(x.id, [])) == 1 and depth < 5:
            x = local[x.id][0].value
            depth += 1
        return x
    e = resolve(cons[0].args[0])
    kvdef = [local['kv'][0]] if len(local.get('kv', [])) == 1 else [cons[0]]
    L = static_length(e, f.node)
    P, N, M = affine.Lin.sym('p'), affine.Lin.sym('n'), affine.Lin.sym('mult')

    # the first and the last knot are exactly a and b (every space over [a, b] has the same support, whatever n):
    # they must be copies of the arguments (np.repeat(a, ..), the pinned end points of np.linspace(a, b, ..)), not the
    # result of floating-point arithmetic such as a + (b - a) / n * n
    def end_exact(x, which, depth=0):
        x = resolve(x)
        if depth > 6:
            return None
        if isinstance(x, ast.Name):
            return True if x.id == ('a' if which == 0 else 'b') else None
        if isinstance(x, ast.Call):
            nm = call_name(x) or ''
            if nm == 'np.concatenate' and x.args and isinstance(x.args[0], (ast.Tuple, ast.List)) and x.args[0].elts:
                return end_exact(x.args[0].elts[0 if which == 0 else -1], which, depth + 1)
            if nm in ('np.repeat', 'np.full_like', 'np.asarray', 'np.array', 'np.ascontiguousarray') and x.args:
                return end_exact(x.args[0], which, depth + 1)
            if nm == 'np.full' and len(x.args) >= 2:
                return end_exact(x.args[1], which, depth + 1)
            if nm == 'np.linspace' and len(x.args) >= 2:
                ep = kwarg(x, 'endpoint', 99)
                if which == 1 and ep is not None and not (isinstance(ep, ast.Constant) and ep.value is True):
                    return None
                return end_exact(x.args[which], which, depth + 1)
            return None
        if isinstance(x, ast.BinOp):
            leaves = {n.id for n in ast.walk(x) if isinstance(n, ast.Name)}
            if {'a', 'b'} & leaves and any(isinstance(c, ast.Call) and (call_name(c) or '').endswith('arange') for c in ast.walk(x)):
                return False if which == 1 else (True if isinstance(x.op, ast.Add) and isinstance(resolve(x.left), ast.Name) and resolve(x.left).id == 'a' else None)
            return None
        if isinstance(x, ast.Subscript):
            return None
        return None
    for which, nm in ((0, 'a'), (1, 'b')):
        ok = end_exact(e, which)
        ctx.decide('R19.1', f.qual, 'the %s knot is exactly the argument %s' % ('first' if which == 0 else 'last', nm), ok, kvdef[0],
                   'end knots are copies of a and b; computing them as a + (b - a)/n * k rounds, so spaces with different n over the same '
                   'interval get different supports' if ok is not True else 'copied from the argument / pinned end point of np.linspace', definite=True)
    if L is None:
        # find the culprit
        culprit = None
        for c in ast.walk(e):
            if isinstance(c, ast.Call) and call_name(c) == 'np.arange' and arange_status(c) == 'fractional':
                culprit = c
        if culprit is not None:
            ctx.violated('R19.1', f.qual, src(culprit), culprit,
                         'the knot array has no static length: np.arange with a non-integral step yields ceil((b-a)/step) elements, '
                         'which depends on rounding of (b-a)/n -- the number of spans is not always n')
        else:
            ctx.undecided('R19.1', f.qual, 'len(kv)', kvdef[0], 'static length of `%s` not determined' % src(e)[:80])
    else:
        want_txt = '2*(p+1) + mult*(n-1)'
        got = repr(L)
        # accept  2p+2 + (n-1)*mult written as opaque product
        ok = got.replace(' ', '') in ('2*p+(n-1)*(mult)+2', '(n-1)*(mult)+2*p+2') or _len_matches(L)
        ctx.decide('R19.1', f.qual, 'len(kv) = %s' % got, ok or None, kvdef[0],
                   'expected %s = numdofs + p + 1 with numdofs = p + 1 + mult*(n-1)' % want_txt)
    # lint over all np.arange calls of the package
    n = 0
    if arange_status(ast.parse('np.arange(a, b, (b - a) / n)').body[0].value) != 'fractional':
        raise AnchorMissing('R19.1: positive control for fractional np.arange did not match')
    for unit in ctx.prog.units.values():
        if not unit.modname.startswith('pyiga'):
            continue
        for c in ast.walk(unit.tree):
            if isinstance(c, ast.Call) and call_name(c) in ('np.arange', 'numpy.arange'):
                n += 1
                fn = enclosing_function(c)
                q = '%s.%s' % (unit.modname, fn.name if fn is not None else '<module>')
                st = arange_status(c)
                if st == 'fractional':
                    ctx.violated('R19.1', q, src(c), c, 'np.arange with a non-integral step/bound: length depends on rounding (use np.linspace)')
                else:
                    ctx.met('R19.1', q, src(c), c, 'integral arguments: static length')
    ctx.floor('R19.1', 'np.arange calls in the package', n, 12)


def _len_matches(L):
    # L is Lin possibly with one opaque product symbol "(n-1)*(mult)" / "(mult)*(n-1)"
    syms = L.symbols()
    prod = [s for s in syms if '*' in s]
    if len(prod) != 1 or L.c[prod[0]] != 1:
        return False
    rest = affine.Lin({s: c for s, c in L.c.items() if s != prod[0]}, L.k)
    if rest != (affine.Lin.sym('p') * 2 + 2):
        return False
    t = prod[0].replace(' ', '')
    return t in ('(n-1)*(mult)', '(mult)*(n-1)')


# ------------------------------------------------------------------ R19.2
SORTED_PRODUCERS = ('np.sort', 'np.unique', 'sorted')


def sorted_provenance(e, fn, depth=0):
    """Return (True, why) if expression provably yields a non-decreasing array."""
    if depth > 4:
        return None, 'too deep'
    if isinstance(e, ast.Call):
        name = call_name(e)
        if name in SORTED_PRODUCERS:
            return True, name
        if isinstance(e.func, ast.Attribute) and e.func.attr == 'copy' and _is_knot_array(e.func.value):
            return True, 'copy of an existing knot vector'
        pos = e.args[1] if len(e.args) >= 3 else None
        if name == 'np.insert' and pos is not None and _is_knot_array(e.args[0]) and isinstance(pos, ast.Call) \
                and (call_name(pos) == 'np.searchsorted' or (isinstance(pos.func, ast.Attribute) and pos.func.attr == 'searchsorted')):
            # merging by insertion positions keeps the RELATIVE order of the inserted values: values that share an insertion index (same
            # span) stay in the order they were passed in
            x = e.args[2]
            params = {a.arg for a in fn.args.posonlyargs + fn.args.args + fn.args.kwonlyargs}
            if isinstance(x, ast.Name) and x.id in params:
                return False, ('np.insert at searchsorted positions keeps the inserted values in the order given: two new knots of one span passed in '
                               'descending order (refine([0.35, 0.3])) arrive unsorted -- `%s` is supplied by the caller in arbitrary order' % x.id)
            ok, why = sorted_provenance(x, fn, depth + 1)
            if ok:
                return True, 'merge of two sorted arrays'
            return None, 'order of the inserted values unknown'
        if name == 'np.concatenate' and e.args and isinstance(e.args[0], (ast.Tuple, ast.List)):
            parts = e.args[0].elts
            # monotone concatenation: repeat(a), repeat(increasing in (a,b)), repeat(b)
            kinds = []
            for p_ in parts:
                if isinstance(p_, ast.Call) and call_name(p_) == 'np.repeat' and p_.args:
                    base = p_.args[0]
                    if isinstance(base, ast.Name):
                        kinds.append(('const', base.id))
                        continue
                    inner = base
                    if isinstance(inner, ast.Subscript) and isinstance(inner.slice, ast.Slice):
                        inner = inner.value
                    if isinstance(inner, ast.Call) and call_name(inner) in ('np.linspace', 'np.arange') and len(inner.args) >= 2:
                        kinds.append(('range', src(inner.args[0]), src(inner.args[1])))
                        continue
                kinds.append(('?',))
            if len(kinds) == 3 and kinds[0][0] == 'const' and kinds[2][0] == 'const' and kinds[1][0] == 'range' \
                    and kinds[1][1] == kinds[0][1] and kinds[1][2] == kinds[2][1]:
                return True, 'repeat(a) ++ increasing points of [a,b] ++ repeat(b)'
            if len(parts) >= 2 and _is_knot_array(parts[0]) and not (isinstance(parts[1], ast.Call) and call_name(parts[1]) == 'np.repeat'):
                return False, ('values appended after the complete existing knot vector are only in order if they all lie at or beyond its last '
                               'knot; inserted knots lie inside the domain, so the array must be sorted before it reaches KnotVector')
            return None, 'concatenation pattern not recognised'
    if isinstance(e, ast.Subscript) and isinstance(e.slice, ast.Slice) and _is_knot_array(e.value):
        st = e.slice.step
        if st is None:
            return True, 'contiguous slice of an existing knot vector'
        return None, 'strided slice'
    if isinstance(e, ast.Name):
        defs = [s for s in own_nodes(fn) if isinstance(s, ast.Assign) and any(isinstance(t, ast.Name) and t.id == e.id for t in s.targets)]
        inplace = [s for s in own_nodes(fn) if isinstance(s, ast.Expr) and isinstance(s.value, ast.Call) and isinstance(s.value.func, ast.Attribute)
                   and s.value.func.attr == 'sort' and isinstance(s.value.func.value, ast.Name) and s.value.func.value.id == e.id
                   and not s.value.args and getattr(s, 'lineno', 0) < getattr(e, 'lineno', 1 << 30)]
        if len(defs) == 1 and inplace and getattr(defs[0], 'lineno', 0) < inplace[-1].lineno:
            return True, 'sorted in place (%s) after its only definition' % src(inplace[-1])
        if len(defs) == 1:
            return sorted_provenance(defs[0].value, fn, depth + 1)
        return None, '%d definitions' % len(defs)
    return None, 'unknown producer'


def _is_knot_array(e):
    t = src(e)
    return t in ('self.kv', 'self.kv.kv', 'kv.kv', 'knotvec.kv')


def r19_2(ctx):
    n = 0
    for unit in ctx.prog.units.values():
        if not unit.modname.startswith('pyiga') or unit.lang != 'py':
            continue
        for fi in ctx.prog.funcs_in(unit.modname, include_nested=True):
            for c in ast.walk(fi.node):
                if isinstance(c, ast.Call) and (call_name(c) or '').split('.')[-1] == 'KnotVector' and c.args:
                    if enclosing_function(c) is not fi.node:
                        continue
                    n += 1
                    ok, why = sorted_provenance(c.args[0], fi.node)
                    ctx.decide('R19.2', fi.qual, src(c)[:100], ok, c, 'knot array provenance: ' + why)
    ctx.floor('R19.2', 'KnotVector constructions in the package', n, 4)
    # the constructor's own sanity check
    init = ctx.prog.func(B + '.KnotVector.__init__')
    a = [s for s in own_nodes(init.node) if isinstance(s, ast.Assert)]
    ok = any('self.kv[1:] - self.kv[:-1] >= 0' in src(x.test) for x in a)
    ctx.decide('R19.2', init.qual, src(a[0].test) if a else 'assert', ok or None, init.node, 'constructor asserts monotonicity')


# ------------------------------------------------------------------ R19.4
def r19_4(ctx):
    f = ctx.prog.func(B + '.KnotVector.greville')
    rets = guards.returns_of(f.node)
    ctx.floor('R19.4', 'returns of greville', len(rets), 2)
    for r in rets:
        facts = guards.dominating_facts(r)
        p0 = guards.has_literal(facts, 'p == 0', True) or guards.has_literal(facts, 'self.p == 0', True)
        v = resolve.expand(r.value, r, keep=('g', 'p'))        # read through local temporaries (knots = self.kv)
        if p0:
            ok = src(v).replace(' ', '') == '(self.kv[1:]+self.kv[:-1])/2'
            ctx.decide('R19.4', f.qual, src(r), ok or None, r, 'degree 0: span midpoints lie inside the domain')
        else:
            ok = isinstance(v, ast.Call) and call_name(v) == 'np.clip' and len(v.args) == 3 and \
                src(v.args[1]) == 'self.kv[0]' and src(v.args[2]) == 'self.kv[-1]'
            ctx.decide('R19.4', f.qual, src(r), ok, r, 'Greville points leave through a clamp to [kv[0], kv[-1]]')
    g = [s for s in own_nodes(f.node) if isinstance(s, ast.Assign) and src(s.targets[0]) == 'g']
    if g:
        t = src(resolve.expand(g[0].value, g[0], keep=('p',))).replace(' ', '')
        ctx.decide('R19.4', f.qual, src(g[0]), t == 'np.convolve(self.kv,np.ones(p)/p)[p:-p]' or None, g[0],
                   'running mean of p consecutive knots, windows 1..numdofs')


# ------------------------------------------------------------------ R19.5
def r19_5(ctx):
    f = ctx.prog.func('pyiga.spline.Spline.derivative')
    d = {src(s.targets[0]): s.value for s in own_nodes(f.node) if isinstance(s, ast.Assign)}
    dc = d.get('diffcoeffs')
    dk = d.get('diffkv')
    if dc is None or dk is None:
        raise AnchorMissing('R19.5: Spline.derivative no longer defines diffcoeffs/diffkv')
    # lengths with K = len(kv.kv) = numdofs + p + 1
    K, P = affine.Lin.sym('K'), affine.Lin.sym('p')

    def slice_len(s):
        lo = affine.from_ast(s.lower) if s.lower is not None else affine.Lin.const(0)
        hi = affine.from_ast(s.upper) if s.upper is not None else K
        if hi.is_const() and hi.k < 0 or (not hi.is_const() and all(c < 0 for c in hi.c.values())):
            hi = K + hi
        return hi - lo
    subs = [n for n in ast.walk(dc) if isinstance(n, ast.Subscript) and src(n.value) == 'self.kv.kv' and isinstance(n.slice, ast.Slice)]
    if len(subs) < 2:
        # not the knot-difference form: where does the denominator come from?
        derived = [c for c in ast.walk(dc) if isinstance(c, ast.Call) and isinstance(c.func, ast.Attribute)
                   and c.func.attr in ('greville', 'mesh', 'meshsize_avg')]
        if derived:
            ctx.violated('R19.5', f.qual, 'difference quotient over knot differences taken from the knot array', dc,
                         '`%s` divides by differences of %s(): those are averages of p knots rounded at the magnitude of the knots and only then '
                         'differenced, so the denominator carries a relative error of eps*|knots|/h instead of eps -- the derivative spline deviates from '
                         'the pointwise derivative for intervals far from the origin (t[i+p+1] - t[i+1] itself is exact to rounding)'
                         % (src(dc)[:80], derived[0].func.attr))
        else:
            ctx.undecided('R19.5', f.qual, 'difference quotient over knot differences taken from the knot array', dc, 'form not recognised: ' + src(dc)[:80])
        ok = isinstance(dk, ast.Call) and src(dk.args[0]) == 'self.kv.kv[1:-1]' and src(dk.args[1]).replace(' ', '') == 'p-1'
        ctx.decide('R19.5', f.qual, src(dk), ok or None, dk, 'derivative lives on the knot vector without the outer knots, degree p-1')
        return
    lens = [slice_len(s.slice) for s in subs]
    want = K - P - 2           # numdofs - 1 = len(np.diff(coeffs))
    for s, l in zip(subs, lens):
        ctx.decide('R19.5', f.qual, '%s has length %r' % (src(s), l), l == want, s,
                   'must equal len(np.diff(coeffs)) = numdofs - 1 = K - p - 2')
    # offsets: upper slice starts p after lower slice (knot difference t_{i+p+1} - t_{i+1})
    if len(subs) == 2:
        lo0 = affine.from_ast(subs[0].slice.lower)
        lo1 = affine.from_ast(subs[1].slice.lower)
        ctx.decide('R19.5', f.qual, 'knot offset %r' % (lo0 - lo1), (lo0 - lo1) == P, dc, 'difference of knots p apart: t[i+p+1] - t[i+1]')
    t = src(dc).replace(' ', '')
    ctx.decide('R19.5', f.qual, src(dc), (t.startswith('p/(') and t.endswith('*np.diff(self.coeffs)')) or None, dc, 'p / (knot difference) * coefficient difference')
    ok = isinstance(dk, ast.Call) and src(dk.args[0]) == 'self.kv.kv[1:-1]' and src(dk.args[1]).replace(' ', '') == 'p-1'
    ctx.decide('R19.5', f.qual, src(dk), ok, dk, 'derivative lives on the knot vector without the outer knots, degree p-1')


# ------------------------------------------------------------------ R19.6
def r19_6(ctx):
    cls = ctx.prog.cls(B + '.KnotVector')
    em = cls.methods.get('_ensure_mesh')
    if em is None:
        raise AnchorMissing('R19.6: KnotVector._ensure_mesh missing')
    t = src(em.node)
    ok = 'np.unique(self.kv, return_inverse=True)' in t
    ctx.decide('R19.6', em.qual, 'mesh and knots_to_mesh from one np.unique(..., return_inverse=True)', ok or None, em.node)
    # the breakpoints are the DISTINCT knot values: a comparison with a tolerance (np.diff(kv) > eps, np.isclose) merges
    # knots that differ by less than the tolerance, so numspans / mesh_support_idx disagree with kv, numdofs and findspan
    tol = [c for c in ast.walk(em.node) if isinstance(c, ast.Compare) and any(isinstance(x, ast.Constant) and isinstance(x.value, float)
                                                                             and 0 < abs(x.value) < 1e-3 for x in ast.walk(c))]
    tol += [c for c in ast.walk(em.node) if isinstance(c, ast.Call) and (call_name(c) or '').split('.')[-1] in ('isclose', 'allclose')]
    if tol:
        ctx.violated('R19.6', em.qual, src(tol[0])[:80], tol[0],
                     'the mesh is built with a tolerance instead of from the distinct knot values: knot vectors with spans shorter than the '
                     'tolerance (make_knots(2, 0, 1e-5, 2000)) collapse to fewer breakpoints, so numspans, mesh_span_indices and '
                     'mesh_support_idx no longer agree with kv, numdofs and the span search')
    # every reader of _mesh/_knots_to_mesh calls _ensure_mesh first
    n = 0
    for name, m in cls.methods.items():
        if name in ('__init__', '_ensure_mesh'):
            continue
        reads = [x for x in ast.walk(m.node) if isinstance(x, ast.Attribute) and x.attr in ('_mesh', '_knots_to_mesh')
                 and isinstance(x.ctx, ast.Load)]
        if not reads:
            continue
        n += 1
        first = min(r.lineno for r in reads)
        ens = [c for c in ast.walk(m.node) if isinstance(c, ast.Call) and src(c.func) == 'self._ensure_mesh']
        ok = bool(ens) and min(c.lineno for c in ens) < first
        ctx.decide('R19.6', m.qual, 'reads %s after _ensure_mesh()' % sorted({r.attr for r in reads}), ok, m.node,
                   'the cache fields are None until _ensure_mesh() has run')
    ctx.floor('R19.6', 'readers of the mesh cache', n, 3)
    d = {
        'support_idx': 'return (j, j + self.p + 1)',
        'numdofs': 'return self.kv.size - self.p - 1',
        'numspans': 'return self.mesh.size - 1',
        'first_active': 'return k - self.p',
    }
    for name, want in d.items():
        m = cls.methods.get(name)
        if m is None:
            raise AnchorMissing('R19.6: KnotVector.%s missing' % name)
        r = guards.returns_of(m.node)
        ctx.decide('R19.6', m.qual, src(r[-1]) if r else 'return', (bool(r) and src(r[-1]) == want) or None, m.node, 'index convention')
    ms = cls.methods['mesh_support_idx_all']
    t = src(ms.node).replace(' ', '')
    ok = 'np.stack((np.arange(0,n),np.arange(self.p+1,n+self.p+1)),axis=1)' in t and 'returnself._knots_to_mesh[startend]' in t
    ctx.decide('R19.6', ms.qual, 'start/end knot indices (j, j+p+1) for all j mapped through knots_to_mesh', ok or None, ms.node,
               'agrees with support_idx')
    rf = cls.methods['refine']
    t = src(rf.node)
    ok = 'new_knots = (mesh[1:] + mesh[:-1]) / 2' in t and 'np.sort(np.concatenate((self.kv, new_knots)))' in t
    ctx.decide('R19.6', rf.qual, 'uniform refinement inserts span midpoints; result sorted union', ok or None, rf.node)
    # semantic: the midpoints are taken between DISTINCT breakpoints (the mesh), not between consecutive raw knots --
    # a repeated knot x has an empty span whose "midpoint" (x+x)/2 is x itself, so its multiplicity would grow
    dflt = [s for s in own_nodes(rf.node) if isinstance(s, ast.Assign) and src(s.targets[0]) == 'new_knots'
            and guards.has_literal(guards.path_conditions(s), 'new_knots is None', True)]
    if not dflt:
        ctx.undecided('R19.6', rf.qual, 'default new_knots', rf.node, 'default branch not recognised')
    else:
        local = {}
        for s in own_nodes(rf.node):
            if isinstance(s, ast.Assign) and len(s.targets) == 1 and isinstance(s.targets[0], ast.Name) and s is not dflt[0]:
                local.setdefault(s.targets[0].id, []).append(s.value)

        def origins(e, depth=0):
            """set of ('mesh'|'raw'|'other', text) for the arrays an expression is computed from"""
            out = set()
            if isinstance(e, ast.Call) and (call_name(e) or '').split('.')[-1] == 'unique':
                return {('mesh', src(e))}
            if isinstance(e, ast.Attribute) and isinstance(e.value, ast.Name) and e.value.id == 'self':
                if e.attr in ('mesh', '_mesh'):
                    return {('mesh', src(e))}
                if e.attr == 'kv':
                    return {('raw', src(e))}
                if e.attr in ('p',):
                    return set()
                return {('other', src(e))}
            if isinstance(e, ast.Attribute) and src(e).endswith('.size'):
                return set()
            if isinstance(e, ast.Name):
                if e.id in local and depth < 5:
                    for v in local[e.id]:
                        out |= origins(v, depth + 1)
                    return out
                return {('other', e.id)} if e.id not in ('np',) else set()
            if isinstance(e, ast.Subscript):
                return origins(e.value, depth)        # slices select, they do not deduplicate
            for c in ast.iter_child_nodes(e):
                if isinstance(c, ast.expr):
                    out |= origins(c, depth)
            return out
        og = origins(dflt[0].value)
        kinds = {k for k, _t in og}
        if kinds == {'mesh'}:
            ctx.met('R19.6', rf.qual, 'midpoints of the default refinement are taken between distinct breakpoints', dflt[0], 'computed from ' + ', '.join(sorted(t for _k, t in og)))
        elif 'raw' in kinds and 'mesh' not in kinds and 'other' not in kinds:
            ctx.violated('R19.6', rf.qual, 'midpoints of the default refinement are taken between distinct breakpoints', dflt[0],
                         'computed from the raw knot sequence (%s): for an interior knot of multiplicity m > 1 the empty spans contribute the knot '
                         'itself, refine() is no longer the union of the old knots and the span midpoints and multiplicities grow to 2m-1'
                         % ', '.join(sorted(t for _k, t in og)))
        else:
            ctx.undecided('R19.6', rf.qual, 'midpoints of the default refinement are taken between distinct breakpoints', dflt[0], 'origins: %s' % sorted(og))


def r19_8(ctx):
    """refine(new_knots) returns the sorted union WITH multiplicities: a repeated value in new_knots inserts that knot
    several times.  No de-duplication (np.unique, set) may be applied to the caller's new knots."""
    rf = ctx.prog.func(B + '.KnotVector.refine')
    bad = []
    for c in ast.walk(rf.node):
        if isinstance(c, ast.Call) and ((call_name(c) or '') in ('np.unique', 'set', 'frozenset', 'np.union1d', 'dict.fromkeys')) \
                and any(isinstance(x, ast.Name) and x.id == 'new_knots' for a in c.args for x in ast.walk(a)):
            # the default branch (new_knots is None) computes midpoints of the mesh: distinct by construction
            facts = guards.dominating_facts(c)
            if guards.has_literal(facts, 'new_knots is None', True):
                continue
            bad.append(c)
    if bad:
        ctx.violated('R19.8', rf.qual, src(bad[0])[:80], bad[0],
                     'the new knots are de-duplicated before they are merged: refine([0.3, 0.3]) inserts the knot once instead of twice, so the '
                     'result is not the sorted union of the knots (fewer dofs than requested, no error)')
    else:
        ctx.met('R19.8', rf.qual, 'new knots are merged with their multiplicities', rf.node, 'no de-duplication of the caller\'s knots')


def r19_7(ctx):
    """The construction parameters of make_knots reach the arrays as requested: a parameter that is rebound through a
    clamp (min / max / np.clip against another parameter) silently changes the requested number of spans, degree or
    multiplicity for the inputs outside the clamp."""
    f = ctx.prog.func(B + '.make_knots')
    params = [a.arg for a in f.node.args.args]
    n = 0
    for s in own_nodes(f.node):
        tgts = []
        if isinstance(s, ast.Assign):
            tgts = [t.id for t in s.targets if isinstance(t, ast.Name)]
        elif isinstance(s, ast.AugAssign) and isinstance(s.target, ast.Name):
            tgts = [s.target.id]
        for t in tgts:
            if t not in params:
                continue
            n += 1
            v = s.value
            clamp = isinstance(v, ast.Call) and (call_name(v) or '').split('.')[-1] in ('min', 'max', 'clip', 'minimum', 'maximum')
            if clamp:
                ctx.violated('R19.7', f.qual, src(s), s,
                             'parameter `%s` is clamped before the knot array is built: requests outside the clamp (e.g. multiplicity p+1 for '
                             'discontinuous splines, or the default multiplicity 1 at degree 0) silently produce another knot vector' % t)
            else:
                ctx.undecided('R19.7', f.qual, src(s), s, 'parameter `%s` is rebound before use' % t)
    if n == 0:
        ctx.met('R19.7', f.qual, 'parameters (%s) are used as passed' % ', '.join(params), f.node, 'no parameter is rebound')


def r19_9(ctx):
    """KnotVector.__eq__ is symmetric: np.allclose(a, b, rtol > 0) scales its relative tolerance by |b| only, so a test that
    calls it in one direction can say kv1 == kv2 and kv2 != kv1 for a borderline pair.  (The memo of spaces keyed by this
    equality, G7, relies on it.)"""
    f = ctx.prog.func(B + '.KnotVector.__eq__')
    calls = [c for c in ast.walk(f.node) if isinstance(c, ast.Call) and (call_name(c) or '').split('.')[-1] in ('allclose', 'isclose')]
    if not calls:
        ctx.met('R19.9', f.qual, 'no one-sided tolerance test', f.node, 'equality does not use np.allclose')
        return
    def sig(c):
        return (src(c.args[0]).replace(' ', ''), src(c.args[1]).replace(' ', '')) if len(c.args) >= 2 else None
    # a local helper (def / lambda) that forwards its two parameters to allclose: the obligation moves to ITS call sites
    helpers = {}
    for d_ in ast.walk(f.node):
        if isinstance(d_, ast.FunctionDef) and d_ is not f.node and len(d_.args.args) == 2:
            helpers[d_.name] = d_
        if isinstance(d_, ast.Assign) and isinstance(d_.value, ast.Lambda) and len(d_.value.args.args) == 2 and isinstance(d_.targets[0], ast.Name):
            helpers[d_.targets[0].id] = d_.value
    moved = []
    for c in list(calls):
        for hname, h_ in helpers.items():
            if any(c is x for x in ast.walk(h_)):
                params = [a.arg for a in h_.args.args]
                if sig(c) in ((params[0], params[1]), (params[1], params[0])):
                    calls.remove(c)
                    flip = sig(c) == (params[1], params[0])
                    for site in [x for x in ast.walk(f.node) if isinstance(x, ast.Call) and isinstance(x.func, ast.Name) and x.func.id == hname and len(x.args) == 2]:
                        a0, a1 = src(site.args[0]).replace(' ', ''), src(site.args[1]).replace(' ', '')
                        moved.append((a1, a0) if flip else (a0, a1))
                else:
                    ctx.undecided('R19.9', f.qual, src(c)[:80], c, 'tolerance test inside a local helper with other operands')
                    return
    # operands read through local names (kv1, kv2 = self.kv, other.kv)
    al = {}
    for s_ in own_nodes(f.node):
        if isinstance(s_, ast.Assign) and len(s_.targets) == 1:
            t_, v_ = s_.targets[0], s_.value
            if isinstance(t_, ast.Name):
                al[t_.id] = src(v_).replace(' ', '')
            elif isinstance(t_, ast.Tuple) and isinstance(v_, ast.Tuple) and len(t_.elts) == len(v_.elts):
                for a_, b_ in zip(t_.elts, v_.elts):
                    if isinstance(a_, ast.Name):
                        al[a_.id] = src(b_).replace(' ', '')
    pairs = {sig(c) for c in calls} | set(moved)
    pairs = {(al.get(p_[0], p_[0]), al.get(p_[1], p_[1])) for p_ in pairs if p_ is not None}
    if not calls and moved:
        calls = [x for x in ast.walk(f.node) if isinstance(x, ast.Call) and (call_name(x) or '').split('.')[-1] in ('allclose', 'isclose')]
    symmetric = any(p_ is not None and (p_[1], p_[0]) in pairs for p_ in pairs)
    rtol0 = all((kwarg(c, 'rtol', 2) is not None and src(kwarg(c, 'rtol', 2)) in ('0', '0.0')) for c in calls)
    ctx.decide('R19.9', f.qual, src(calls[0])[:90], True if (symmetric or rtol0) else False, calls[0],
               'tested in both directions (or with an absolute tolerance only)' if (symmetric or rtol0) else
               'np.allclose(self.kv, other.kv, rtol=...) is asymmetric in its arguments (|a - b| <= atol + rtol*|b|): for make_knots(1, 0, 1e6, 1) '
               'and make_knots(1, 0, 1000000.01000001, 1) kv1 == kv2 is True and kv2 == kv1 is False', definite=True)


def run(ctx):
    r19_9(ctx)
    r19_8(ctx)
    r19_7(ctx)
    r19_1(ctx)
    r19_2(ctx)
    # R19.3 = R02.2 (same construct, evaluated once more under this property's id)
    import rules.C02 as c02
    before = len(ctx.obligations)
    c02.r02_2(ctx)
    for o in ctx.obligations[before:]:
        o.rule = 'R19.3'
    r19_4(ctx)
    r19_5(ctx)
    r19_6(ctx)

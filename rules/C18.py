"""C18 -- low-rank tensor formats (structural clauses)."""
import ast

from sa.program import src, own_nodes, call_name, parent, kwarg, AnchorMissing
from sa import guards, effects, resolve

EXPLANATION = (
    "Static rules over pyiga/tensor.py, lowrank.py and lowrank_cy.pyx: (R18.1) protocol matrix: the four tensor classes implement "
    "every member the module relies on for all tensors (ndim, shape, ravel, asarray, __getitem__, nway_prod, __add__, __sub__, "
    "__neg__) and subtraction is addition of the negation; (R18.2) operand purity: no tensor operation or approximation routine "
    "writes in place to storage aliasing self's factors or an argument -- in-place arithmetic is applied only to provably fresh "
    "arrays (alias analysis with view/fresh classification and fresh-return summaries); (R18.3) greedy-loop exits: in grou, gta, "
    "gta_ls, als, als1, aca, aca_lr, aca_3d every loop exit is the tolerance test or the rank/iteration limit; (R18.4) one index "
    "normaliser: every __getitem__ goes through _normalize_indices or delegates to children that do; (R18.5) entry generators "
    "return what they wrap; (R18.6) cumulative error budgets: a local initialised to a literal before an approximation loop and "
    "tested against a tolerance inside it (find_truncation_rank's discarded energy) is updated in the loop on every path that "
    "continues; (R18.8) negation negates exactly one factor of each product (all summands of a sum, the core of a Tucker tensor): "
    "negating all d Kronecker factors gives the sign (-1)^d; (R18.7 = R16.5) mode products put the new axis back by a cyclic move.")
DOES_NOT_DECIDE = "any homomorphism with full-array expansion, truncation/approximation error bounds, orthonormality"
TECHNIQUE = "custom AST rules: class/method matrix, alias/effect analysis, loop-exit classification, delegation check"

T = 'pyiga.tensor'
LR = 'pyiga.lowrank'
TENSOR_CLASSES = ('CanonicalTensor', 'TuckerTensor', 'TensorSum', 'TensorProd')
PROTOCOL = ('ravel', 'asarray', '__getitem__', 'nway_prod', '__add__', '__sub__', '__neg__')


def r18_1(ctx):
    for cname in TENSOR_CLASSES:
        cls = ctx.prog.cls(T + '.' + cname)
        for m in PROTOCOL:
            ctx.decide('R18.1', cls.qual, 'implements %s' % m, m in cls.methods, cls.node,
                       'apply_tprod / fro_norm / asarray / arithmetic dispatch on these members for every tensor kind')
        init = cls.methods.get('__init__')
        attrs = {a.attr for s in own_nodes(init.node) if isinstance(s, ast.Assign) for t in s.targets
                 for a in ([t] if isinstance(t, ast.Attribute) else []) if src(a.value) == 'self'} if init else set()
        for a in ('ndim', 'shape'):
            ctx.decide('R18.1', cls.qual, 'sets self.%s in __init__' % a, a in attrs, init.node if init else cls.node)
        sub = cls.methods.get('__sub__')
        if sub is not None:
            r = src(guards.returns_of(sub.node)[-1].value).replace(' ', '')
            ok = r in ('self+-T2', 'self+(-T2)', 'self.__add__(-T2)', 'self+-other') or ('-T2' in r and r.startswith('TensorSum('))
            ctx.decide('R18.1', sub.qual, 'return ' + r, ok or None, sub.node, 'subtraction delegates to addition of the negation (needs __neg__ on the operand)')
    # module-level dispatchers use the protocol
    ap = ctx.prog.func(T + '.apply_tprod')
    ok = "hasattr(A, 'nway_prod')" in src(ap.node) and 'return A.nway_prod(ops)' in src(ap.node)
    ctx.decide('R18.1', ap.qual, 'tensor classes handled through nway_prod', ok, ap.node)
    for q, attr in ((T + '.fro_norm', 'norm'), (T + '.asarray', 'asarray')):
        f = ctx.prog.func(q)
        ok = ("hasattr(X, '%s')" % attr) in src(f.node)
        ctx.decide('R18.1', q, 'dispatches on %s' % attr, ok, f.node)


def r18_2(ctx):
    summ = effects.build_summaries(ctx.prog, modules={T, LR})
    n = 0
    for mod in (T, LR):
        for fi in ctx.prog.funcs_in(mod, include_nested=True):
            n += 1
            # the module-level asarray(X) returns X itself for ndarrays (np.asanyarray): the result aliases the argument
            ws = effects.external_writes(fi.node, summaries=summ, identity_calls=('asarray', 'tensor.asarray'))
            bad = False
            for w in ws:
                node = w['node']
                kind = w['kind']
                tgt = w['target']
                if fi.name == '__init__' and kind.endswith(':attr') and tgt.startswith('self.'):
                    continue
                if fi.name == '__init__' and kind.startswith('method:') and tgt.startswith('self.') and w['external'] == {'self'}:
                    continue        # building the object's own freshly created field (self.slices = []; self.slices.append(..))
                if kind.endswith(':attr') and tgt.startswith('self._'):
                    continue
                # closure helpers that update enclosing-function locals (roots 'global:' of a free variable)
                if not w['external']:
                    continue
                bad = True
                if w['definite']:
                    ctx.violated('R18.2', fi.qual, src(node)[:110], node,
                                 'in-place %s on storage owned by %s: the operand of a tensor operation is modified' % (kind, ', '.join(sorted(w['external']))))
                else:
                    ctx.undecided('R18.2', fi.qual, src(node)[:110], node, 'possible in-place %s (roots %s)' % (kind, sorted(w['roots'])))
            if not bad:
                ctx.met('R18.2', fi.qual, 'no in-place write to self/argument storage', fi.node)
    ctx.floor('R18.2', 'functions analysed in tensor.py / lowrank.py', n, 90)
    # the documented fresh idiom in squeeze
    for cname in ('CanonicalTensor', 'TuckerTensor'):
        sq = ctx.prog.maybe_func('%s.%s.squeeze' % (T, cname))
        if sq is None:
            continue
        aug = [s for s in own_nodes(sq.node) if isinstance(s, ast.AugAssign) and isinstance(s.target, ast.Name)]
        for a in aug:
            eff = effects.Effects(sq.node, summaries=summ)
            # roots at the point of the augassign are tracked in eff.writes
            ws = [w for w in eff.writes if w['node'] is a]
            ok = bool(ws) and all(r == 'fresh' for r in ws[0]['roots'])
            ctx.decide('R18.2', sq.qual, src(a), ok, a, 'accumulator is a fresh copy (%s)' % (sorted(ws[0]['roots']) if ws else '?'))


GREEDY = {
    T: ('grou', 'gta', 'gta_ls', 'als', 'als1', 'als1_ls'),
    LR: ('aca', 'aca_lr', 'aca_3d'),
}
LIMIT_WORDS = ('maxiter', 'R', 'max_skipcount', 'max_tolcount', 'skipcount', 'tolcount')
TOL_WORDS = ('tol', 'rtol', 'err', 'e', 'delta', 'res')


def r18_3(ctx):
    n = 0
    for mod, names in GREEDY.items():
        for name in names:
            fi = ctx.prog.maybe_func('%s.%s' % (mod, name))
            if fi is None:
                raise AnchorMissing('R18.3: %s.%s' % (mod, name))
            loops = [l for l in own_nodes(fi.node) if isinstance(l, (ast.While, ast.For))]
            outer = [l for l in loops if guards.in_loop(l, fi.node) is None]
            for l in outer:
                n += 1
                # loop header
                if isinstance(l, ast.For):
                    it = src(l.iter)
                    ok = any(w in it for w in ('range(R)', 'range(maxiter)', 'range(1, R', 'range(len('))
                    ctx.decide('R18.3', fi.qual, 'for %s in %s' % (src(l.target), it), ok or None, l, 'bounded by the rank / iteration limit')
                else:
                    t = src(l.test)
                    if t == 'True':
                        ctx.met('R18.3', fi.qual, 'while True', l, 'exits only through the classified breaks below', nontrivial=False)
                    else:
                        names_in_t = {x.id for x in ast.walk(l.test) if isinstance(x, ast.Name)}
                        ok = bool(names_in_t & set(LIMIT_WORDS + TOL_WORDS))
                        ctx.decide('R18.3', fi.qual, 'while ' + t, ok or None, l, 'loop condition is a limit or tolerance test')
                # exits inside
                for b in [x for x in ast.walk(l) if isinstance(x, (ast.Break, ast.Return)) and nearest_loop(x, fi.node) is l]:
                    facts = guards.path_conditions(b, stop=l)
                    names_in_facts = set()
                    for (t, pol, nd) in facts:
                        names_in_facts |= {x.id for x in ast.walk(nd) if isinstance(x, ast.Name)}
                    kind = 'break' if isinstance(b, ast.Break) else 'return'
                    st = '%s under %s' % (kind, ' and '.join(('' if pol else 'not ') + t for (t, pol, _n) in facts) or 'no condition')
                    if not facts or all(isinstance(nd, ast.Constant) for (_t, _p, nd) in facts):
                        ctx.violated('R18.3', fi.qual, st, b, 'unconditional exit from the approximation loop')
                    elif names_in_facts & set(LIMIT_WORDS):
                        ctx.met('R18.3', fi.qual, st[:140], b, 'limit exit')
                    elif names_in_facts & set(TOL_WORDS) or any('tol' in nm or 'err' in nm for nm in names_in_facts):
                        ctx.met('R18.3', fi.qual, st[:140], b, 'tolerance exit')
                    else:
                        ctx.undecided('R18.3', fi.qual, st[:140], b, 'exit condition mentions neither a tolerance nor a limit')
    ctx.floor('R18.3', 'greedy approximation loops', n, 8)


def r18_6(ctx):
    """Cumulative error budgets: a local that is initialised to a numeric literal before an approximation loop and is read
    in a tolerance exit test of that loop must be updated inside the loop (otherwise every step is compared with the
    tolerance on its own and the total error is unbounded by it), and the update must happen on every path that goes on
    to discard more of the tensor."""
    n = 0
    for mod, names in GREEDY.items():
        for name in names + (('find_truncation_rank',) if mod == T else ()):
            fi = ctx.prog.maybe_func('%s.%s' % (mod, name))
            if fi is None:
                if name == 'find_truncation_rank':
                    raise AnchorMissing('R18.6: %s.%s' % (mod, name))
                continue
            params = {a.arg for a in fi.node.args.args}
            for l in [x for x in own_nodes(fi.node) if isinstance(x, (ast.While, ast.For))]:
                inits = {}
                for s in own_nodes(fi.node):
                    if isinstance(s, ast.Assign) and len(s.targets) == 1 and isinstance(s.targets[0], ast.Name) and s.lineno < l.lineno \
                            and isinstance(s.value, ast.Constant) and isinstance(s.value.value, (int, float)) and not isinstance(s.value.value, bool) \
                            and guards.in_loop(s, fi.node) is None:
                        inits[s.targets[0].id] = s
                if not inits:
                    continue
                tests = []
                if isinstance(l, ast.While):
                    tests.append(l.test)
                for b in [x for x in ast.walk(l) if isinstance(x, (ast.Break, ast.Return)) and nearest_loop(x, fi.node) is l]:
                    tests += [nd for (_t, _p, nd) in guards.path_conditions(b, stop=l)]
                for v, init in sorted(inits.items()):
                    if v in params:
                        continue
                    reading = [t for t in tests if any(isinstance(x, ast.Name) and x.id == v for x in ast.walk(t))
                               and any(isinstance(x, ast.Compare) for x in ast.walk(t))]
                    if not reading:
                        continue
                    # only budgets compared with a tolerance, not iteration counters compared with a limit
                    tnames = set()
                    for t in reading:
                        tnames |= {x.id for x in ast.walk(t) if isinstance(x, ast.Name)}
                    if not any('tol' in nm or nm in TOL_WORDS for nm in tnames - {v}):
                        continue
                    # a fixed LIMIT compared with a quantity that moves in the loop (tolcount >= max_tolcount) is not a budget:
                    # a budget is the moving side of a comparison with a fixed tolerance
                    moving = {x.target.id for x in ast.walk(l) if isinstance(x, ast.AugAssign) and isinstance(x.target, ast.Name)} | \
                             {t.id for x in ast.walk(l) if isinstance(x, ast.Assign) for t in x.targets if isinstance(t, ast.Name)}
                    if (tnames - {v}) & moving and v not in moving:
                        continue
                    n += 1
                    writes = [s for s in ast.walk(l) if (isinstance(s, ast.AugAssign) and isinstance(s.target, ast.Name) and s.target.id == v)
                              or (isinstance(s, ast.Assign) and any(isinstance(t, ast.Name) and t.id == v for t in s.targets))]
                    st = 'error budget %s (tested in `%s`)' % (v, src(reading[0])[:60])
                    if not writes:
                        ctx.violated('R18.6', fi.qual, st, reading[0],
                                     '%s is initialised to %s before the loop, tested against the tolerance inside it, but never updated in the loop: '
                                     'each step is compared with the tolerance on its own, so the accumulated error of k discarded parts can reach '
                                     'sqrt(k) times the tolerance' % (v, src(init.value)))
                        continue
                    # the update must lie on every path that continues to shrink/extend the iterate
                    shrink = [s for s in ast.walk(l) if isinstance(s, ast.Assign) and nearest_loop(s, fi.node) is l
                              and any(isinstance(t, ast.Name) and t.id in params for t in s.targets)]
                    wfacts = [set((t, p) for (t, p, _n) in guards.path_conditions(w, stop=l)) for w in writes]
                    ok = True
                    for s in shrink:
                        sf = set((t, p) for (t, p, _n) in guards.path_conditions(s, stop=l))
                        if not any(wf <= sf for wf in wfacts):
                            ok = None
                    ctx.decide('R18.6', fi.qual, st, ok, writes[0], 'updated inside the loop on the paths that continue')
    ctx.floor('R18.6', 'error budgets compared with a tolerance', n, 1)


def nearest_loop(node, fn):
    p = parent(node)
    while p is not None and p is not fn:
        if isinstance(p, (ast.For, ast.While)):
            return p
        p = parent(p)
    return None


def r18_4(ctx):
    for cname in TENSOR_CLASSES:
        m = ctx.prog.func('%s.%s.__getitem__' % (T, cname))
        t = src(m.node)
        uses = '_normalize_indices(I, self.shape)' in t
        delegates = any(isinstance(s, ast.Subscript) and isinstance(s.value, ast.Name) and s.value.id == 'X' and 'I' in src(s.slice)
                        for s in ast.walk(m.node)) and any(isinstance(g, ast.comprehension) and 'self.Xs' in src(g.iter) for g in ast.walk(m.node))
        ok = uses or delegates
        ctx.decide('R18.4', m.qual, 'normalises through _normalize_indices' if uses else ('delegates I to every child tensor' if delegates else 'own index handling'),
                   ok or None, m.node, 'one place defines negative indices, slices, index lists and missing trailing axes')
    ni = ctx.prog.func(T + '._normalize_indices')
    t = src(ni.node).replace(' ', '')
    ok = 'iflen(I)<d:' in t and 'I=I+(d-len(I))*(slice(None),)' in t and 'eliflen(I)>d:' in t
    ctx.decide('R18.4', ni.qual, 'missing trailing axes padded with full slices; too many indices rejected', ok, ni.node)
    ok = 'i=range(shape[k])[ik]' in t and 'r=range(shape[k])[ik]' in t and 'r=np.arange(shape[k])[ik]' in t
    ctx.decide('R18.4', ni.qual, 'scalars, slices and index lists are resolved against range(shape[k])', ok or None, ni.node, 'negative indices and steps follow Python semantics')
    ok = 'singleton.append(k)' in t and 'shape_new.append(1)' in t
    ctx.decide('R18.4', ni.qual, 'scalar indices recorded as singleton axes (squeezed by the caller)', ok or None, ni.node)


def r18_5(ctx):
    tg = ctx.prog.cls(LR + '.TensorGenerator')
    fa = tg.methods.get('from_array')
    ok = fa is not None and 'TensorGenerator(X.shape, lambda I: X[tuple(I)])' in src(fa.node)
    ctx.decide('R18.5', tg.qual + '.from_array', 'entry function returns X[tuple(I)]', ok or None, fa.node if fa else tg.node)
    init = tg.methods['__init__']
    t = src(init.node)
    ok = 'entryfunc is not None' in t or 'if entryfunc' in t
    ctx.decide('R18.5', init.qual, 'exactly one of entryfunc / multientryfunc defines the generator', ok or None, init.node)
    gi = tg.methods['__getitem__']
    ok = '_normalize_indices' in src(gi.node) or 'tensor._normalize_indices' in src(gi.node)
    ctx.decide('R18.5', gi.qual, 'index expressions normalised by the shared normaliser', ok or None, gi.node)
    r1 = ctx.prog.func('pyiga.lowrank_cy.rank_1_update')
    t = src(r1.node).replace(' ', '')
    ok = 'X[i,j]+=alpha*u[i]*v[j]' in t or ('au=alpha*u[i]' in t and 'X[i,j]+=au*v[j]' in t)
    ctx.decide('R18.5', r1.qual, 'X[i,j] += alpha * u[i] * v[j]', ok or None, r1.node, 'rank-one update kernel')


def r18_8(ctx):
    """Negation of a product-structured object negates exactly ONE factor of each product (negating all d factors gives the
    sign (-1)^d: the identity for even d, and A - B silently becomes A + B); a sum-structured object negates every summand."""
    # class -> (kind, how the factor collection of ONE product is spelled)
    table = {
        'CanonicalTensor': ('product', ('Xs',)),        # rank-one terms are columns of the factor matrices: one matrix negated
        'TensorProd': ('product', ('Xs',)),
        'CanonicalOperator': ('terms', ('terms',)),     # sum over terms, each term a tuple of Kronecker factors
        'TensorSum': ('sum', ('Xs',)),
        'TuckerTensor': ('core', ('X',)),
    }
    n = 0
    for cname, (kind, attrs) in table.items():
        fi = ctx.prog.maybe_func('%s.%s.__neg__' % (T, cname))
        if fi is None:
            continue
        rets = guards.returns_of(fi.node)
        if not rets:
            continue
        n += 1
        v = rets[-1].value
        negs = [u for u in ast.walk(v) if isinstance(u, ast.UnaryOp) and isinstance(u.op, ast.USub)]
        comps = [c for c in ast.walk(v) if isinstance(c, (ast.GeneratorExp, ast.ListComp))]

        def bound_by(name):
            for c in comps:
                for g in c.generators:
                    if any(isinstance(x, ast.Name) and x.id == name for x in ast.walk(g.target)):
                        return g
            return None
        verdict, why = None, 'form of the negation not recognised'
        if kind in ('product', 'terms'):
            per_factor = []
            for u in negs:
                o = u.operand
                if isinstance(o, ast.Name):
                    g = bound_by(o.id)
                    if g is None:
                        continue
                    it = src(g.iter)
                    # the generator runs over the factors of one product: self.Xs / A.Xs for product classes, the
                    # term variable (bound by a generator over .terms) for the operator
                    if kind == 'product' and it.split('.')[-1] in attrs:
                        per_factor.append(u)
                    elif kind == 'terms' and isinstance(g.iter, ast.Name):
                        g2 = bound_by(g.iter.id)
                        if g2 is not None and src(g2.iter).split('.')[-1] in attrs:
                            per_factor.append(u)
            single = [u for u in negs if isinstance(u.operand, ast.Subscript) and isinstance(u.operand.slice, ast.Constant)]
            if per_factor:
                verdict, why = False, ('`%s` negates EVERY factor of a product: the result is (-1)^d times the operand -- unchanged for an '
                                       'even number of factors, so A - B computes A + B there' % src(per_factor[0]))
            elif len(single) == 1 and len(negs) == 1:
                verdict, why = True, 'exactly one factor (%s) is negated, the others are kept' % src(single[0].operand)
        elif kind == 'sum':
            if len(negs) == 1 and isinstance(negs[0].operand, ast.Name) and bound_by(negs[0].operand.id) is not None \
                    and src(bound_by(negs[0].operand.id).iter).split('.')[-1] in attrs:
                verdict, why = True, 'every summand is negated'
        elif kind == 'core':
            if len(negs) == 1 and src(negs[0].operand) in ('self.X',):
                verdict, why = True, 'the core tensor is negated, the factor matrices are kept'
        ctx.decide('R18.8', fi.qual, 'return ' + src(v)[:110], verdict, rets[-1], why, definite=True)
    ctx.floor('R18.8', '__neg__ implementations of the tensor / operator classes', n, 4)


def r18_9(ctx):
    """One representation of a Kronecker term: methods of CanonicalOperator that concatenate a term with a tuple
    (`(-t[0],) + t[1:]`) need every term to BE a tuple.  Either the constructor normalises (`tuple(t) for t in terms`) or
    every construction site in the package hands it tuples; a site that passes lists makes negation and subtraction of that
    operator raise TypeError."""
    cls = ctx.prog.cls(T + '.CanonicalOperator')
    init = cls.methods.get('__init__')
    # consumers: tuple literal + (slice of) a term variable bound by iterating self.terms
    consumers = []
    for name, m in cls.methods.items():
        for c in ast.walk(m.node):
            if isinstance(c, (ast.GeneratorExp, ast.ListComp)):
                tv = {g.target.id for g in c.generators if isinstance(g.target, ast.Name) and src(g.iter).endswith('.terms')}
                for b in ast.walk(c.elt):
                    if isinstance(b, ast.BinOp) and isinstance(b.op, ast.Add):
                        for lit, oth in ((b.left, b.right), (b.right, b.left)):
                            if isinstance(lit, ast.Tuple) and any(isinstance(x, ast.Name) and x.id in tv for x in ast.walk(oth)) \
                                    and not (isinstance(oth, ast.Call) and call_name(oth) == 'tuple'):
                                consumers.append((m, b))
    if not consumers:
        ctx.met('R18.9', cls.qual, 'no method concatenates a term with a tuple', cls.node, 'any sequence works as a term')
        return
    normalises = init is not None and any(
        isinstance(s_, ast.Assign) and src(s_.targets[0]) == 'self.terms' and any(
            isinstance(c, ast.Call) and call_name(c) == 'tuple' for c in ast.walk(s_.value))
        for s_ in own_nodes(init.node))
    if normalises:
        ctx.met('R18.9', init.qual, 'the constructor stores every term as a tuple', init.node,
                'consumers such as `%s` may concatenate' % src(consumers[0][1]))
        return
    n = 0
    for unit in ctx.prog.units.values():
        if not unit.modname.startswith('pyiga') or unit.lang != 'py':
            continue
        for fi in ctx.prog.funcs_in(unit.modname, include_nested=True):
            for c in ast.walk(fi.node):
                if not (isinstance(c, ast.Call) and (call_name(c) or '').split('.')[-1] == 'CanonicalOperator' and c.args):
                    continue
                a = c.args[0]
                elts = []
                if isinstance(a, (ast.List, ast.Tuple)):
                    elts = a.elts
                elif isinstance(a, (ast.ListComp, ast.GeneratorExp)):
                    elts = [a.elt]
                else:
                    continue
                n += 1
                for e in elts:
                    is_tuple = isinstance(e, ast.Tuple) or (isinstance(e, ast.Call) and call_name(e) in ('tuple', '_alldot')) or \
                        (isinstance(e, ast.BinOp) and any(isinstance(x, ast.Tuple) or (isinstance(x, ast.Call) and call_name(x) == 'tuple')
                                                          for x in (e.left, e.right)))
                    is_list = isinstance(e, (ast.List, ast.ListComp))
                    if is_list:
                        ctx.violated('R18.9', fi.qual, src(c)[:100], c,
                                     'this site builds an operator whose terms are LISTS, but %s computes `%s`: negating or subtracting such an '
                                     'operator raises TypeError (tuple + list); the constructor does not normalise the terms'
                                     % (consumers[0][0].qual.split('.')[-1], src(consumers[0][1])))
                    elif is_tuple:
                        ctx.met('R18.9', fi.qual, src(c)[:100], c, 'terms are tuples')
                    else:
                        ctx.undecided('R18.9', fi.qual, src(c)[:100], c, 'type of the term containers not recognised')
    ctx.floor('R18.9', 'CanonicalOperator construction sites', n, 4)


def r18_11(ctx):
    """(a) TensorGenerator.matrix_at: the first running index of the matrix slice lands on axes[0], the second on axes[1], in
    the order given -- min / max / sorted of the axes puts them on the smaller / larger axis instead (descending axis pairs give
    the transposed slice or an IndexError).  (b) thresholds on tensor core entries test the ABSOLUTE value: a comparison of a
    raw core entry with a tiny positive constant drops every negative entry."""
    ma = ctx.prog.func(LR + '.TensorGenerator.matrix_at')
    srt = [c for c in ast.walk(ma.node) if isinstance(c, ast.Call) and call_name(c) in ('min', 'max', 'sorted', 'np.sort')
           and any(isinstance(x, ast.Name) and x.id in ('axes', 'a0', 'a1') for a in c.args for x in ast.walk(a))]
    if srt:
        ctx.violated('R18.11', ma.qual, src(srt[0]), srt[0],
                     'the two axes of the slice are ordered by size: with axes=(2, 0) the running index pair (i, j) addresses entry '
                     '(j, ., i) of the wrapped array instead of (i-th along axis 2, j-th along axis 0) -- the generator returns the transposed '
                     'matrix (equal extents) or raises IndexError (different extents)')
    else:
        ctx.met('R18.11', ma.qual, 'axes are used in the order given', ma.node, 'no sorting of the axis pair')
    ft = ctx.prog.func(T + '.CanonicalTensor.from_tensor')
    bad = []
    for c in ast.walk(ft.node):
        if isinstance(c, ast.Compare) and len(c.ops) == 1 and isinstance(c.ops[0], (ast.Gt, ast.GtE)) \
                and isinstance(c.comparators[0], ast.Constant) and isinstance(c.comparators[0].value, float) and 0 < c.comparators[0].value < 1e-6:
            left = c.left
            has_abs = any(isinstance(x, ast.Call) and (call_name(x) or '').split('.')[-1] in ('abs', 'absolute', 'fabs', 'norm') for x in ast.walk(left))
            if not has_abs:
                # a local that was bound from abs(...) counts
                if isinstance(left, ast.Name):
                    defs = [s_.value for s_ in own_nodes(ft.node) if isinstance(s_, ast.Assign) and src(s_.targets[0]) == left.id]
                    if defs and all(any(isinstance(x, ast.Call) and (call_name(x) or '').split('.')[-1] in ('abs', 'absolute', 'norm') for x in ast.walk(d_)) for d_ in defs):
                        continue
                bad.append(c)
    if bad:
        ctx.violated('R18.11', ft.qual, src(bad[0]), bad[0],
                     'core entries are kept when they EXCEED a tiny positive threshold, without taking the absolute value: every negative '
                     'entry of a Tucker core (T1 - T2, -T, any HOSVD) contributes no rank-one term and the converted tensor differs from T')
    else:
        ctx.met('R18.11', ft.qual, 'negligible core entries are recognised by their absolute value', ft.node)


def r18_10(ctx):
    """A multi-index kept in a LIST must be converted to a tuple before it subscripts an array: `E[[j, k]]` (a list, or a slice
    of a list) is numpy's fancy indexing along axis 0 -- it addresses the ROWS j and k, and raises IndexError when k exceeds
    the first extent -- not the entry (j, k)."""
    n = 0
    for mod in (T, LR):
        for fi in ctx.prog.funcs_in(mod, include_nested=True):
            # names that hold a multi-index as a list: bound by list(...) / [..] and filled from .shape or np.unravel_index
            lists = set()
            for s_ in own_nodes(fi.node):
                if isinstance(s_, ast.Assign) and len(s_.targets) == 1 and isinstance(s_.targets[0], ast.Name):
                    v = s_.value
                    if (isinstance(v, ast.Call) and call_name(v) == 'list') or isinstance(v, (ast.List, ast.ListComp)):
                        if '.shape' in src(v) or 'unravel_index' in src(v):
                            lists.add(s_.targets[0].id)
            if not lists:
                continue
            for sub in [x for x in ast.walk(fi.node) if isinstance(x, ast.Subscript)]:
                idx = sub.slice
                base = None
                if isinstance(idx, ast.Name) and idx.id in lists:
                    base = idx.id
                elif isinstance(idx, ast.Subscript) and isinstance(idx.value, ast.Name) and idx.value.id in lists and isinstance(idx.slice, ast.Slice):
                    base = idx.value.id
                if base is None or (isinstance(sub.value, ast.Name) and sub.value.id in lists):
                    continue
                n += 1
                ctx.violated('R18.10', fi.qual, src(sub), sub,
                             'the list `%s` holds a multi-index; used as a subscript it (or a slice of it) selects whole rows by fancy indexing '
                             'instead of one entry, and raises IndexError when an index exceeds the first extent (aca_3d on a 2 x 2 x 7 tensor of '
                             'rank 2: IndexError: index 3 is out of bounds for axis 0 with size 2)' % base)
    if n == 0:
        ctx.met('R18.10', LR + '.aca_3d', 'multi-indices subscript arrays as tuples', ctx.prog.func(LR + '.aca_3d').node, 'no list used as a multi-index')


def r18_12(ctx):
    """squeeze(axis) is documented as numpy.squeeze: negative axes count from the end.  The axes are normalised (mod ndim)
    before they are removed from range(ndim); otherwise `set(range(ndim)) - {-1}` removes nothing and the singleton factor is
    applied twice."""
    for cname in ('CanonicalTensor', 'TuckerTensor'):
        f = ctx.prog.maybe_func('%s.%s.squeeze' % (T, cname))
        if f is None:
            continue
        diff = [b for b in ast.walk(f.node) if isinstance(b, ast.BinOp) and isinstance(b.op, ast.Sub) and 'range(self.ndim)' in src(b.left) and 'axis' in src(b.right)]
        if not diff:
            ctx.undecided('R18.12', f.qual, 'remaining axes', f.node, 'not recognised')
            continue
        t = src(f.node).replace(' ', '')
        normalised = 'normalize_axis' in t
        for a in ast.walk(f.node):
            # any rebinding of `axis` (or of the name the difference subtracts) that computes with the number of dimensions
            if isinstance(a, ast.Assign) and any(isinstance(x, ast.BinOp) and isinstance(x.op, (ast.Mod, ast.Add)) and
                                                 any(k in src(x) for k in ('ndim', 'len(')) for x in ast.walk(a.value)):
                normalised = True
        # the axes come from a helper (axis = helper(..., axis)): the helper is where they are normalised
        for a in ast.walk(f.node):
            if not normalised and isinstance(a, ast.Assign) and any(isinstance(t_, ast.Name) and t_.id == 'axis' for t_ in a.targets) \
                    and isinstance(a.value, ast.Call):
                callee = None
                nm = call_name(a.value) or ''
                if nm in ('tuple', 'list', 'sorted', 'set', 'frozenset', 'range', 'np.atleast_1d', 'np.asarray', 'np.array'):
                    continue        # a container conversion does not change the axis numbers
                for q in (nm, T + '.' + nm, T + '.' + cname + '.' + nm.split('.')[-1]):
                    callee = callee or ctx.prog.maybe_func(q)
                if callee is None:
                    ctx.undecided('R18.12', f.qual, src(a)[:80], a, 'axes prepared by a call that is not resolved')
                    normalised = None
                    break
                ct = src(callee.node).replace(' ', '')
                dims = {t_.id for a2 in ast.walk(callee.node) if isinstance(a2, ast.Assign) and any(k in src(a2.value) for k in ('ndim', 'len('))
                        for t_ in a2.targets if isinstance(t_, ast.Name)}
                if 'normalize_axis' in ct or any(isinstance(x, ast.BinOp) and isinstance(x.op, (ast.Mod, ast.Add)) and
                                                (any(k in src(x) for k in ('ndim', 'len(')) or
                                                 any(isinstance(y, ast.Name) and y.id in dims for y in ast.walk(x)))
                                                for x in ast.walk(callee.node)):
                    normalised = True
        if normalised is None:
            continue
        sub_names = {x.id for x in ast.walk(diff[0].right) if isinstance(x, ast.Name)}
        if not normalised and sub_names != {'set', 'axis'}:
            ctx.undecided('R18.12', f.qual, src(diff[0]), diff[0], 'the subtracted axes are not the parameter itself')
            continue
        ctx.decide('R18.12', f.qual, src(diff[0]), True if normalised else False, diff[0],
                   'axes are normalised before the set difference' if normalised else
                   'a negative axis (squeeze(-1), valid for numpy.squeeze) is not an element of range(ndim): nothing is removed, the result '
                   'keeps the singleton axis and its factor is multiplied in twice (CanonicalTensor) / an assertion fails (TuckerTensor)',
                   definite=True)


def r18_13(ctx):
    """TuckerTensor.compress(tol, rtol) truncates with the absolute tolerance max(tol, rtol * |T|): only the RELATIVE tolerance is
    scaled by the norm of the tensor."""
    f = ctx.prog.func(T + '.TuckerTensor.compress')
    calls = [c for c in ast.walk(f.node) if isinstance(c, ast.Call) and (call_name(c) or '').split('.')[-1] == 'find_truncation_rank' and len(c.args) >= 2]
    if not calls:
        calls = [c for c in ast.walk(f.node) if isinstance(c, ast.Call) and (call_name(c) or '').split('.')[-1] == '_truncated_hosvd' and len(c.args) >= 2]
    if not calls:
        ctx.undecided('R18.13', f.qual, 'tolerance handed to the truncation', f.node, 'not recognised')
        return
    e = resolve.expand(calls[0].args[1], calls[0], keep=('T', 'self'))
    if isinstance(e, ast.Name):
        # `tol = max(tol, ...)`: a self-referential rebinding of the parameter is read as its right-hand side
        asg = [s_ for s_ in own_nodes(f.node) if isinstance(s_, ast.Assign) and len(s_.targets) == 1 and isinstance(s_.targets[0], ast.Name)
               and s_.targets[0].id == e.id and s_.lineno < calls[0].lineno]
        if len(asg) == 1:
            e = asg[0].value
    mx = e if isinstance(e, ast.Call) and call_name(e) in ('max', 'np.maximum') else None
    if mx is None and isinstance(e, ast.BinOp) and isinstance(e.op, ast.Mult):
        # max(...) * norm: the absolute tolerance is scaled, too
        inner = [x for x in (e.left, e.right) if isinstance(x, ast.Call) and call_name(x) in ('max', 'np.maximum')]
        if inner and any(isinstance(a, ast.Name) and a.id == 'tol' for a in inner[0].args):
            ctx.violated('R18.13', f.qual, src(e)[:90], calls[0],
                         'the ABSOLUTE tolerance is multiplied by the norm of the tensor: compress(tol=1.0) of a tensor of norm 2e3 truncates with '
                         'tolerance 2e3 (error 201 where at most 1 was requested)')
            return
    if mx is None or len(mx.args) != 2:
        ctx.undecided('R18.13', f.qual, src(e)[:90], calls[0], 'tolerance expression not of the form max(tol, rtol * norm)')
        return
    a, b = mx.args
    bare = [x for x in (a, b) if isinstance(x, ast.Name) and x.id == 'tol']
    scaled = [x for x in (a, b) if isinstance(x, ast.BinOp) and isinstance(x.op, ast.Mult) and 'rtol' in src(x) and 'norm' in src(x)]
    ctx.decide('R18.13', f.qual, src(e)[:90], True if (bare and scaled) else None, calls[0], 'max(tol, rtol * |T|)')


def run(ctx):
    r18_13(ctx)
    r18_12(ctx)
    r18_11(ctx)
    r18_10(ctx)
    r18_9(ctx)
    r18_8(ctx)
    r18_1(ctx)
    r18_2(ctx)
    r18_3(ctx)
    r18_4(ctx)
    r18_5(ctx)
    r18_6(ctx)
    # R18.7 = R16.5: mode products put the new axis back where the contracted one was (cyclic move, not an exchange)
    import rules.C16 as c16
    ctx.shared(c16.r16_5, 'R16.5', 'R18.7')

#!/venv/bin/python
"""Write reference/<prop>.json from the tree in /repo (run by hand on a tree whose instances were confirmed by reading --
after a `fix:` commit or after triaging a finding; the checks never write these files).

    /venv/bin/python tools/make_reference.py [--repo DIR] [Cxx ...]
"""
import ast
import fnmatch
import json
import os
import subprocess
import sys

HERE = os.path.dirname(os.path.dirname(os.path.abspath(__file__)))
sys.path.insert(0, HERE)
from sa.program import Program, src      # noqa: E402


def main():
    args = sys.argv[1:]
    repo = '/repo'
    if '--repo' in args:
        i = args.index('--repo')
        repo = args[i + 1]
        del args[i:i + 2]
    scope = json.load(open(os.path.join(HERE, 'reference', 'scope.json')))
    props = args or sorted(k for k in scope if not k.startswith('_'))
    prog = Program(repo, alpha=False)
    try:
        commit = subprocess.check_output(['git', '-C', repo, 'rev-parse', 'HEAD'], text=True).strip()
        dirty = bool(subprocess.check_output(['git', '-C', repo, 'status', '--porcelain', '--', 'pyiga', 'scripts'], text=True).strip())
    except Exception:
        commit, dirty = '?', False
    if dirty:
        print('refusing to take a reference from a dirty tree')
        return 1
    if not args:
        # every function, for the alpha-normalisation of local names (sa/alpha.py)
        allf = {}
        for q, f in sorted(prog.functions.items()):
            try:
                text = ast.unparse(f.node)
                ast.parse(text)
            except Exception:
                continue
            allf[q] = text
        json.dump(dict(taken_from=commit, functions=allf), open(os.path.join(HERE, 'reference', 'functions.json'), 'w'), indent=0, sort_keys=True)
        print('functions.json', len(allf), 'functions')
    for p in props:
        pats = scope[p]
        funcs = {}
        for q, f in sorted(prog.functions.items()):
            if any(fnmatch.fnmatchcase(q, pat) for pat in pats):
                try:
                    text = ast.unparse(f.node)
                    ast.parse(text)
                except Exception as e:          # lowered Cython that does not round-trip
                    continue
                funcs[q] = text
        out = dict(property=p, taken_from=commit, patterns=pats, functions=funcs)
        json.dump(out, open(os.path.join(HERE, 'reference', p + '.json'), 'w'), indent=0, sort_keys=True)
        print(p, len(funcs), 'functions')
    return 0


if __name__ == '__main__':
    sys.exit(main())

#!/usr/bin/env python3
"""Regenerate /verif/MANIFEST.json from the rule modules (run by hand after adding a property)."""
import ast, glob, json, os, sys
HERE = os.path.dirname(os.path.dirname(os.path.abspath(__file__)))


def const(tree, name, default=''):
    for s in tree.body:
        if isinstance(s, ast.Assign) and any(isinstance(t, ast.Name) and t.id == name for t in s.targets):
            try:
                return ast.literal_eval(s.value)
            except Exception:
                return default
    return default


props = [json.loads(l) for l in open(os.path.join(HERE, 'properties.jsonl'))]
checks, na = [], []
served = []
NA_REASONS = json.load(open(os.path.join(HERE, 'tools', 'not_applicable.json'))) if os.path.exists(os.path.join(HERE, 'tools', 'not_applicable.json')) else {}
for p in props:
    pid = p['id']
    path = os.path.join(HERE, 'rules', pid + '.py')
    if not os.path.exists(path) or pid in NA_REASONS:
        na.append(dict(property_id=pid, reason=NA_REASONS.get(pid, 'no sound static rule built for this property yet (see DESIGN.md section 4)')))
        continue
    tree = ast.parse(open(path).read())
    served.append(pid)
    checks.append(dict(
        property_id=pid,
        quick_cmd='./check %s --tier quick' % pid,
        thorough_cmd='./check %s --tier thorough' % pid,
        evidence_file='evidence/%s.json' % pid,
        replay_cmd_template='./check %s --replay {path}' % pid,
        engine='sa',
        level_claimed=dict(
            category='other',
            text=('Static analysis of the current source: ' + const(tree, 'EXPLANATION') +
                  ' In addition (R%s.0) every statement of the functions this property is anchored in (reference/scope.json) is compared '
                  'with the instance confirmed on the reference tree, modulo commutativity / keyword order / numeric spelling; a statement '
                  'that is exactly one semantic mutation away (swapped operands, arguments or subscripts, changed constant, flipped sign or '
                  'comparison, +-1 offset, dropped keyword or conjunct, one variable replaced by another) is a violation, any other '
                  'rewrite gives no verdict; and (R%s.G) the same functions are searched for memoisation and forwarding defect patterns '
                  '(stale value after a memo miss, under-keyed memo, memo not reset by a state writer, rebound option forwarded, '
                  'configuration not inherited by a derived object, error estimate by difference of squares, memo hit by tolerant equality).'
                  % (pid[1:], pid[1:]) +
                  ' A pass means every enumerated structural obligation is met by /repo as it is now; it is a necessary-condition '
                  'check over all inputs the code handles, not a statement about numerical values.'),
            design_ref='DESIGN.md section 3, ' + pid),
        level_note=('Trusted: Python ast / Cython parser, numpy/scipy semantics as documented, the frozen instance tables in rules/%s.py '
                    '(confirmed by reading). Does not decide: %s' % (pid, const(tree, 'DOES_NOT_DECIDE'))),
        technique=const(tree, 'TECHNIQUE', 'custom AST rules (table agreement, guard dominance, sibling comparison)') + '; statement-level comparison with confirmed reference instances (canonical trees, single-mutation classification); memoisation/forwarding pattern detectors',
    ))
man = dict(
    version=1,
    setup_cmd='true',
    hooks=dict(guard='PYIGA_VERIF', enable='none needed: the checks read source only; no hook exists in /repo',
               baseline_off_cmd='cd /repo && /venv/bin/python -m pytest -ra -q -p no:cacheprovider --timeout=900 --continue-on-collection-errors',
               source_commits=[], add_only=True),
    engines=[dict(name='sa', path='sa/', serves_properties=served,
                  kind_free_text='repository-specific static analysis: Python ast + Cython parser lowered to ast; '
                                 'guards/dominance, effects/aliasing, affine index algebra with Fourier-Motzkin, polynomial normal forms, '
                                 'constant folding of coefficient tables, table agreement, sibling comparison')],
    checks=checks,
    notes='All checks are static (no pyiga code is imported or executed, except that C13 thorough may run the repository\'s own '
          'generator script to compare trees). known_findings.json lists recorded defects; fix: commits in /repo are listed there as fixed.',
    not_applicable=na,
)
json.dump(man, open(os.path.join(HERE, 'MANIFEST.json'), 'w'), indent=1)
print('checks:', served, 'not applicable:', [x['property_id'] for x in na])

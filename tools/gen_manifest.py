#!/usr/bin/env python3
"""Regenerate /verif/MANIFEST.json from the rule modules (run by hand after adding a property)."""
import ast, glob, json, os, sys
HERE = os.path.dirname(os.path.dirname(os.path.abspath(__file__)))


def const(tree, name, default=''):
    for s in tree.body:
        if isinstance(s, ast.Assign) and any(isinstance(t, ast.Name) and t.id == name for t in s.targets):
            try:
                return ast.literal_eval(s.value)
            except Exception:
                return default
    return default


# clauses added to a property's check after the seeded waves (the modules' EXPLANATION constants describe the original rules)
MORE = {
 'C02': '(R02.5) no evaluation kernel takes a parameter value as C float; (R02.6 = R07.9) a buffer receiving computed derivatives is floating point whatever the coefficient dtype. (R02.8 = R07.1) the scattered-point evaluators pair knot vector d with coordinate sdim-1-d.',
 'C01': '(R01.11 = R08.4) every array generated for an updatable input is refreshed by update().',
 'C09': '(R09.9 = R17.8) f is evaluated at the mapped points iff f_physical. (R09.11 = R01.4) the Gauss node count is the maximum degree over all directions + 1; (R09.12) X_fast() without a geometry delegates to X(); (R09.13) inner_products and integrate both pad |det J| with trailing unit axes before multiplying it onto possibly vector-valued data.',
 'C06': '(R06.G/G12) a double sum restricted to a triangle with doubled off-diagonal weight requires a symmetric summand.',
 'C05': '(R05.G/G2) a memo keyed by attributes of its inputs (degree, dof count) while the value is computed from the whole knot vectors. (R05.7) the level ranges of prolongate_to run to the finest level of the fine space and do not depend on the disparity. (R05.8) the inverse one-level truncations in the THB virtual-hierarchy prolongators are composed in the order of hb_to_thb (known finding on the current tree). (R05.9) no in-place write into a matrix a helper may have returned uncopied; (R05.10) prolongation keeps the 2-D shape for a one-function source basis.',
 'C04': '(R04.G/G11) indices are scaled between levels by 2**(level difference), never by 2*(level difference). (R04.10) the marking mode of refine()/refine_region() defaults to False and is not taken from the evaluation flag self.truncate.',
 'C03': '(R03.11 = R04.6) the disparity the level-wise assembly relies on is established by the marking closure started on every level. (R03.12) the level spread assemble_matrix searches is justified by every marking mode refine() admits (T-admissible marking bounds the truncated functions only). (R03.13) function_grandchildren recurses on the children; interlevel rows are assembled regardless of activity; (R03.14) indices and values of a level block come from one COO view; (R03.15) level assemblers receive inputs and parameters. (R03.16 = R05.11) thb_to_hb composes the truncation of every level, no level factor is skipped because the level has no active functions; (R03.17 = R08.3) the options of assemble() reach the hierarchical branch under their own names.',
 'C07': "(R07.4) component order of the linearised Hessian; the caller's component index is never applied to the weight column; (R07.5) the fixed coordinate of a boundary function is inserted at position len(x) - axis. (R07.2) views handed out by a method of self through a tuple result are tracked to in-place writes in the caller; (R07.6) the corner weights of every circular arc depend on the angle. (R07.8) boundary() honours a support override in every direction; (R07.9) the Hessian buffer is floating point. (R07.10) a UserFunction passes coordinates to the user callable in the order received on every evaluation route.",
 'C08': "(R08.4) update() iterates the variable sequence itself; (R08.6 = R01.7) bounding-box offsets in Gauss-node units of the common node count. (R08.4) the constants array is allocated by the generated __init__ only. (R08.7) the d-dimensional generic vector core unpacks d block patterns from the tuple the driver passes. (R08.8) multi_blocks allocates blocks with the shape the kernels write and the driver declares (test x trial components). (R08.9) update() does not skip inputs by object identity. (R08.11) every block opened by the emitting loops of generate_update is closed in the same iteration; (R08.12) chunk boundaries of the thread-pool paths are computed in integer arithmetic.",
 'C10': "(R10.5) restrict / restrict_rhs / restrict_matrix / extend / complete are compared after inlining with the selection operators they must apply (rows R_free_v, columns R_free). (R10.5) the lifted right-hand side is compared as a matrix-product normal form (order and transposition of the factors); (R10.2) vector Dirichlet values are taken component by component, not by a C-order ravel of the whole array. (R10.6) a scalar Dirichlet value is expanded in a floating dtype; (R10.7) boundary evaluations of the initial-condition helper use the ends of the knot vector's support.",
 'C11': "(R11.1) the matrix handed to the CSR kernels is only converted between storage formats; (R11.2) provenance of the sets each strategy extends; (R11.6) the restricted residual is computed after the last update of the iterate on every path; (R11.8 = R04.4) cache invalidation. (R11.9) backward sweeps reverse (not sort) the index list and the starting residual is not formed in the caller's array; (R11.10) the coarsest-level step corrects the iterate it is given.",
 'C12': "(R12.G) memoised factorisations are keyed by everything they depend on. (R12.3) no exit between the append of the time and the append of the state. (R12.9) the constant-step fallback receives t0; the scaled error is the RMS of componentwise quotients. (R12.2) the clamp of the step factor reaches the step-size update on every path.",
 'C13': "(R13.1) numeric attributes are text-encoded, lossy calls inside hash_key are reported; (R13.3) add() refuses as soon as the memoised hash exists.",
 'C14': "(R14.4) each candidate flip starts from the unflipped grid. (R14.G/G14) a size derived from a container is not cached before the container is compacted in the same method. (R14.5) the flip tuple of a 3D interface is widened correctly for each removed axis (symbolic execution of the widening).",
 'C15': "(R15.5) the kernels receive the structure's own, unfiltered block pattern; (R15.8) the per-level pattern comes from the support search on every level. (R15.5) the dispatch on the level count is evaluated for L = 1..4; (R15.9) local row numbers refer to the list as passed by the caller. (R15.10) asmatrix passes the shape explicitly; (R15.11) supports of two knot vectors are compared in parameter coordinates. (R15.14) the column query is the row query of the transposed structure on every path.",
 'C16': "(R16.1) adjoint and transpose traverse the operands in the same order; (R16.4) accumulators are not narrowed to the first operand's dtype; (R16.5) a cyclic axis move is not replaced by an exchange. (R16.3) the flag that admits the square-only Kronecker routine is computed factor by factor; a `continue` of a block-row scan is not a `break` (R16.0). (R16.7) Kronecker work buffers take the promoted dtype; (R16.8) dense Cholesky only under spd; DiagonalOperator accepts a 0-d squeeze. (R16.10) in the dense LU branch of make_solver, which matrix is factorised and whether the transposed system is solved are decided by one test.",
 'C17': "(R17.1) the corrective branch covers info > 0; (R17.7) load vector and integral use one tensor Gauss rule with the common node count. (R17.8) f_physical -- not the presence of a geometry -- selects the evaluation at mapped points; project_L2 takes the Kronecker shortcut only without geometry; (R17.G/G13) a slice bounded by the negated degree needs the degree-0 case. (R17.9 = R09.8) cached quadrature rules are not scaled in place; (R17.10) interpolation solves the collocation system for every degree. (R17.13 = R04.4) every refinement clears the index caches of the HSpace that project_L2 assembles on; (R17.14 = R09.1) the determinant kernels weighting the load vector equal the Leibniz polynomial.",
 'C18': "(R18.2) tensor.asarray(X) aliases X. (R18.7 = R16.5) mode products put the new axis back by a cyclic move; (R18.8) negation negates exactly one factor of each product. (R18.9) every Kronecker term is a tuple where methods concatenate tuples (constructor normalises or all construction sites pass tuples). (R18.10) a multi-index kept in a list subscripts arrays as a tuple. (R18.11) significance tests use abs; running indices are spliced in the order of the requested axes; (R18.12) squeeze normalises negative axes.",
 'C19': "(R19.1) the end knots are exact copies of a and b; (R19.3) the vectorised span search is stateless; (R19.5) knot differences come from the knot array. (R19.7) make_knots uses its parameters as passed (no clamp). (R19.6) the mesh is np.unique of the knots; (R19.8) refine keeps repeated new knots; (R19.9) knot-vector equality is symmetric. (R19.2) a merge by np.insert at searchsorted positions is sorted only if the inserted values are.",
 'C20': "(R20.5) the rebuild is reached for every ImportError; (R20.6) a process removes only its own scratch directory and creates nothing importable under the cache directory before publication. (R20.5) every creation of a shared directory tolerates a concurrent creator (exist_ok / caught FileExistsError), a preceding exists() test does not count. (R20.8) one build attempt per scratch directory: the build is not repeated in an exception handler.",
}

props = [json.loads(l) for l in open(os.path.join(HERE, 'properties.jsonl'))]
checks, na = [], []
served = []
NA_REASONS = json.load(open(os.path.join(HERE, 'tools', 'not_applicable.json'))) if os.path.exists(os.path.join(HERE, 'tools', 'not_applicable.json')) else {}
for p in props:
    pid = p['id']
    path = os.path.join(HERE, 'rules', pid + '.py')
    if not os.path.exists(path) or pid in NA_REASONS:
        na.append(dict(property_id=pid, reason=NA_REASONS.get(pid, 'no sound static rule built for this property yet (see DESIGN.md section 4)')))
        continue
    tree = ast.parse(open(path).read())
    served.append(pid)
    checks.append(dict(
        property_id=pid,
        quick_cmd='./check %s --tier quick' % pid,
        thorough_cmd='./check %s --tier thorough' % pid,
        evidence_file='evidence/%s.json' % pid,
        replay_cmd_template='./check %s --replay {path}' % pid,
        engine='sa',
        level_claimed=dict(
            category='other',
            text=('Static analysis of the current source: ' + const(tree, 'EXPLANATION') + const(tree, 'EXPLANATION_MORE') +
                  ('  Added after the seeded waves: ' + MORE[pid] if pid in MORE else '') +
                  ' In addition (R%s.0) every statement of the functions this property is anchored in (reference/scope.json) is compared '
                  'with the instance confirmed on the reference tree, modulo commutativity / keyword order / numeric spelling; a statement '
                  'that is exactly one semantic mutation away (swapped operands, arguments or subscripts, changed constant, flipped sign or '
                  'comparison, +-1 offset, dropped keyword or conjunct, one variable replaced by another or by a literal, two variables exchanged, an exact equality replaced by a default-tolerance test, a dropped target of a multiple assignment, a changed numeric default, a parameter that is no longer read, a new in-place write to a caller\'s argument, an update moved behind the exit it preceded) is a violation, any other '
                  'rewrite gives no verdict; and (R%s.G) the same functions are searched for memoisation and forwarding defect patterns '
                  '(stale value after a memo miss, under-keyed memo, memo not reset by a state writer, rebound option forwarded, '
                  'configuration not inherited by a derived object, error estimate by difference of squares, memo hit by tolerant equality, memo keyed by a '
                  'projection of its inputs, linear instead of dyadic level factor, triangular sum of an asymmetric summand, slice bounded by a '
                  'negated degree, size cached before its container is rewritten, memo of a method with a flag not keyed by the flag, closure created in a loop that reads the loop variable late, list changed while iterated, stale value after a caught exception, operand combined with itself, negative index at the first iteration, lookup key built by an order-destroying call, sum used as an all-zero test, setdefault used as a store).  Before any rule runs, spelling-only differences from the '
                  'confirmed reference (renamed locals, new temporaries, equivalent statement forms) are normalised away (sa/alpha.py).'
                  % (pid[1:], pid[1:]) +
                  ' A pass means every enumerated structural obligation is met by /repo as it is now; it is a necessary-condition '
                  'check over all inputs the code handles, not a statement about numerical values.'),
            design_ref='DESIGN.md section 3, ' + pid),
        level_note=('Trusted: Python ast / Cython parser, numpy/scipy semantics as documented, the frozen instance tables in rules/%s.py '
                    '(confirmed by reading). Does not decide: %s' % (pid, const(tree, 'DOES_NOT_DECIDE'))),
        technique=const(tree, 'TECHNIQUE', 'custom AST rules (table agreement, guard dominance, sibling comparison)') + '; statement-level comparison with confirmed reference instances (canonical trees, single-mutation classification); memoisation/forwarding pattern detectors',
    ))
man = dict(
    version=1,
    setup_cmd='true',
    hooks=dict(guard='PYIGA_VERIF', enable='none needed: the checks read source only; no hook exists in /repo',
               baseline_off_cmd='cd /repo && /venv/bin/python -m pytest -ra -q -p no:cacheprovider --timeout=900 --continue-on-collection-errors',
               source_commits=[], add_only=True),
    engines=[dict(name='sa', path='sa/', serves_properties=served,
                  kind_free_text='repository-specific static analysis: Python ast + Cython parser lowered to ast; '
                                 'guards/dominance, effects/aliasing, affine index algebra with Fourier-Motzkin, polynomial normal forms, '
                                 'constant folding of coefficient tables, table agreement, sibling comparison')],
    checks=checks,
    notes='All checks are static (no pyiga code is imported or executed, except that C13 thorough may run the repository\'s own '
          'generator script to compare trees). known_findings.json lists recorded defects; fix: commits in /repo are listed there as fixed.',
    not_applicable=na,
)
json.dump(man, open(os.path.join(HERE, 'MANIFEST.json'), 'w'), indent=1)
print('checks:', served, 'not applicable:', [x['property_id'] for x in na])

#!/bin/bash
# usage: tools/first_contact.sh Cxx A|B [all]   -- run the own-property check (or all checks) on a scratch copy of /repo with
# /tmp/wt/Cxx/<V>.patch applied (never in /repo); prints exit code and the rules that fired
P=$1; V=$2; WHAT=${3:-$P}
D=$(mktemp -d /tmp/fc_XXXXXX)
cp -r /repo/pyiga /repo/scripts $D/ 2>/dev/null
rm -rf $D/pyiga/*.so $D/pyiga/__pycache__ $D/build
if ! (cd $D && patch -p1 -s -i /tmp/wt/$P/$V.patch >/dev/null 2>&1); then echo "$P $V: PATCH FAILED"; rm -rf $D; exit 9; fi
${CHECK:-/verif/check} $WHAT --repo $D --no-write > $D/out.txt 2>&1; code=$?
rules=$(grep -B1 '^VIOLATION' $D/out.txt | grep -oE '^[^ ]+ R[0-9]+\.[0-9G]+' | awk '{print $2}' | sort -u | tr '\n' ' ')
echo "$P $V: exit=$code rules=[$rules]"
grep -B1 '^VIOLATION' $D/out.txt | grep -v '^VIOLATION\|^--' | cut -c1-230 | head -3
grep 'ANALYSIS-ERROR' $D/out.txt | head -2
rm -rf $D

#!/venv/bin/python
"""store_refactors.py WAVE Cxx [Cyy ...] -- copy /tmp/wt/Cxx/R{1,2,3}.patch into /verif/refactors/Fnn-Cxx/ (patch.diff, meta.json)"""
import glob
import json
import os
import re
import shutil
import subprocess
import sys

HERE = os.path.dirname(os.path.dirname(os.path.abspath(__file__)))
wave = sys.argv[1]
mods = {}
for f in sorted(glob.glob(os.path.join(HERE, 'reference', 'C*.json'))):
    d = json.load(open(f))
    for q in d['functions']:
        parts = q.split('.')
        for k in range(len(parts), 0, -1):
            rel = '/'.join(parts[:k])
            if os.path.exists('/repo/' + rel + '.py') or os.path.exists('/repo/' + rel + '.pyx'):
                mods.setdefault(rel, set()).add(d['property'])
                break
for c in sys.argv[2:]:
    for r in (1, 2, 3):
        p = '/tmp/wt/%s/R%d.patch' % (c, r)
        if not os.path.exists(p):
            print('missing', p)
            continue
        if subprocess.call(['git', '-C', '/repo', 'apply', '--check', p]) != 0:
            print('does not apply:', p)
            continue
        nums = [int(re.match(r'F(\d+)-', os.path.basename(d)).group(1)) for d in glob.glob(os.path.join(HERE, 'refactors', 'F*-*'))]
        fid = 'F%02d-%s' % (max(nums) + 1, c)
        d = os.path.join(HERE, 'refactors', fid)
        os.makedirs(d)
        shutil.copy(p, os.path.join(d, 'patch.diff'))
        files = re.findall(r'^\+\+\+ b/(\S+)', open(p).read(), re.M)
        props = {c}
        for f in files:
            props |= mods.get(re.sub(r'\.(py|pyx|pxi)$', '', f), set())
        meta = dict(id=fid, property=c, properties=sorted(props), what='behaviour-preserving refactoring in ' + ' '.join(files),
                    origin='written by an independent sub-agent asked for behaviour-preserving refactorings of the code the property is anchored in; '
                           'the agent recorded reference results on the clean tree and checked bit-identical results and 191 passed with the patch',
                    expected='every check stays at exit 0 with this patch applied', wave=wave)
        json.dump(meta, open(os.path.join(d, 'meta.json'), 'w'), indent=1)
        print(fid, files)

#!/venv/bin/python
"""Run the checks over the whole stored corpus in parallel, on scratch copies (never in /repo):

    /venv/bin/python tools/run_corpus.py            # seeds: own property must alarm; refactors: ALL properties must stay silent
    /venv/bin/python tools/run_corpus.py seeds | refactors

Prints one line per entry that does not behave as expected and a summary; exit 1 if any."""
import json
import os
import shutil
import subprocess
import sys
import tempfile
from concurrent.futures import ThreadPoolExecutor

HERE = os.path.dirname(os.path.dirname(os.path.abspath(__file__)))
RECORD = '--record' in sys.argv


def one(kind, name):
    d = os.path.join(HERE, kind, name)
    meta = json.load(open(os.path.join(d, 'meta.json')))
    tmp = tempfile.mkdtemp(prefix='corpus_', dir='/tmp')
    try:
        for sub in ('pyiga', 'scripts'):
            shutil.copytree(os.path.join('/repo', sub), os.path.join(tmp, sub),
                            ignore=shutil.ignore_patterns('*.so', '*.c', '*.cpp', '__pycache__', 'build', '*.o'))
        r = subprocess.run(['patch', '-p1', '-s', '-i', os.path.join(d, 'patch.diff')], cwd=tmp, capture_output=True, text=True)
        if r.returncode != 0:
            return name, 'PATCH-FAILED', r.stdout[-300:]
        prop = meta.get('property') or name.split('-')[-1]
        target = prop if kind == 'seeded' else 'all'
        r = subprocess.run([os.path.join(HERE, 'check'), target, '--repo', tmp, '--no-write'], capture_output=True, text=True)
        viol = [l for l in r.stdout.splitlines() if l.startswith('VIOLATION')]
        lines = r.stdout.splitlines()
        msgs = [lines[i - 1][:260] for i, l in enumerate(lines) if l.startswith('VIOLATION') and i > 0]
        if kind == 'seeded' and RECORD:
            rules = sorted({m.split(' ')[1] for m in msgs if len(m.split(' ')) > 1 and m.split(' ')[1].startswith('R')})
            db = meta.get('detected_by')
            if not isinstance(db, dict):
                db = {'first_contact': db} if db else {}
            db['now'] = ', '.join(rules)
            meta['detected_by'] = db
            json.dump(meta, open(os.path.join(d, 'meta.json'), 'w'), indent=1)
        if kind == 'seeded':
            ok = r.returncode == 1 and bool(viol)
        else:
            ok = r.returncode == 0 and not viol
        return name, 'ok' if ok else 'UNEXPECTED exit=%d violations=%d' % (r.returncode, len(viol)), '\n'.join(msgs[:4]) if not ok else ''
    finally:
        shutil.rmtree(tmp, ignore_errors=True)


def main():
    os.environ.setdefault('OMP_NUM_THREADS', '1')
    os.environ.setdefault('OPENBLAS_NUM_THREADS', '1')
    args = [a for a in sys.argv[1:] if a != '--record']
    only = [a for a in args if a not in ('seeds', 'refactors')]
    which = [a for a in args if a in ('seeds', 'refactors')] or ['seeds', 'refactors']
    jobs = []
    if 'seeds' in which:
        jobs += [('seeded', n) for n in sorted(os.listdir(os.path.join(HERE, 'seeded'))) if os.path.isfile(os.path.join(HERE, 'seeded', n, 'meta.json'))]
    if 'refactors' in which:
        jobs += [('refactors', n) for n in sorted(os.listdir(os.path.join(HERE, 'refactors'))) if os.path.isfile(os.path.join(HERE, 'refactors', n, 'meta.json'))]
    if only:
        jobs = [j for j in jobs if any(j[1].startswith(o) for o in only)]
    bad = 0
    with ThreadPoolExecutor(16) as ex:
        for name, verdict, detail in ex.map(lambda j: one(*j), jobs):
            if verdict != 'ok':
                bad += 1
                print(name, verdict)
                if detail:
                    print('   ' + detail.replace('\n', '\n   '))
    print('%d entries, %d unexpected' % (len(jobs), bad))
    return 1 if bad else 0


if __name__ == '__main__':
    sys.exit(main())

#!/usr/bin/env python3
"""setup_wave.py  -- create one scratch worktree /tmp/wt/Cxx per property (clean checkout of /repo HEAD + compiled extensions +
PROPERTY.json) and write the sub-agent prompt /tmp/wt/Cxx.prompt from seeded/PROMPT_TEMPLATE_3.txt with one line per earlier seed."""
import glob, json, os, shutil, subprocess, sys
props = [json.loads(l) for l in open('/verif/properties.jsonl')]
only = sys.argv[1:]
tmpl = open('/verif/seeded/PROMPT_TEMPLATE_3.txt').read()
earlier = {}
for m in sorted(glob.glob('/verif/seeded/S*/meta.json')):
    j = json.load(open(m))
    earlier.setdefault(j['property'], []).append('  - %s (needs: %s)' % (j.get('what', ''), j.get('needs_to_manifest', '')))
for p in props:
    pid = p['id']
    if only and pid not in only:
        continue
    wt = '/tmp/wt/' + pid
    if os.path.exists(wt):
        subprocess.run(['git', '-C', '/repo', 'worktree', 'remove', '--force', wt])
        shutil.rmtree(wt, ignore_errors=True)
    subprocess.run(['git', '-C', '/repo', 'worktree', 'add', '--detach', '-q', wt, 'HEAD'], check=True)
    for so in glob.glob('/repo/pyiga/*.so'):
        shutil.copy(so, wt + '/pyiga/')
    json.dump(p, open(wt + '/PROPERTY.json', 'w'), indent=1)
    open('/tmp/wt/%s.prompt' % pid, 'w').write(tmpl.replace('{WT}', wt).replace('{EARLIER}', '\n'.join(earlier.get(pid, []))))
    print(pid, len(earlier.get(pid, [])))

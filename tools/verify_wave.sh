#!/bin/bash
# usage: tools/verify_wave.sh Cxx [Cyy ...]  -- confirm both changes of each listed property (properties in parallel, A then B inside one worktree)
for P in "$@"; do
  ( for V in A B; do /verif/tools/verify_seed2.sh $P $V; done >> /tmp/wt/verify.log 2>&1 ) &
done
wait

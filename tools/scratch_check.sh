#!/bin/bash
# usage: tools/scratch_check.sh <patch file> <Cxx|all>   -- run a check on a scratch copy of /repo's sources with the patch applied
PATCH=$1; WHAT=${2:-all}
D=$(mktemp -d /tmp/sc_XXXXXX)
cp -r /repo/pyiga /repo/scripts $D/ 2>/dev/null
rm -rf $D/pyiga/*.so $D/pyiga/__pycache__ $D/build
if ! (cd $D && patch -p1 -s -i $PATCH >/dev/null 2>&1); then echo "PATCH FAILED"; rm -rf $D; exit 9; fi
/verif/check $WHAT --repo $D --no-write > $D/out.txt 2>&1; code=$?
echo "exit=$code"
grep -B1 '^VIOLATION' $D/out.txt | grep -v '^VIOLATION\|^--' | cut -c1-330 | head -${3:-6}
grep 'ANALYSIS-ERROR' $D/out.txt | head -2
rm -rf $D

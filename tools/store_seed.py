#!/usr/bin/env python3
"""store_seed.py Cxx A|B "what" "needs" -- copy a confirmed two-patch seed from /tmp/wt/Cxx into /verif/seeded/Snn-Cxx/"""
import glob, json, os, re, shutil, sys

P, V, what, needs = sys.argv[1:5]
WT = '/tmp/wt/' + P
nums = [int(re.match(r'S(\d+)-', os.path.basename(d)).group(1)) for d in glob.glob('/verif/seeded/S*-*')]
sid = 'S%02d-%s' % (max(nums) + 1, P)
d = '/verif/seeded/' + sid
os.makedirs(d)
shutil.copy('%s/%s.patch' % (WT, V), d + '/patch.diff')
shutil.copy('%s/demo_%s.py' % (WT, V), d + '/demo_%s.py' % P)
notes = open(WT + '/NOTES.md').read() if os.path.exists(WT + '/NOTES.md') else ''
open(d + '/NOTES.md', 'w').write('(change %s of the agent\'s two changes)\n\n' % V + notes)
w = open('/tmp/wt/%s.%s.with.log' % (P, V)).read().strip().splitlines()[-1][:200]
wo = open('/tmp/wt/%s.%s.without.log' % (P, V)).read().strip().splitlines()[-1][:200]
meta = dict(id=sid, property=P, what=what, needs_to_manifest=needs,
            origin='written by an independent sub-agent (third wave: two changes per property, told only the property text, a scratch worktree '
                   'and a one-line description of the earlier seed to avoid)',
            confirmed=dict(demo_with_change='exit 1 (%s)' % w, demo_without_change='exit 0 (%s)' % wo, test_suite_with_change='191 passed',
                           how='tools/verify_seed2.sh %s %s in the scratch worktree /tmp/wt/%s (demo on the clean tree, git apply, demo, full suite -n 6, git apply -R)' % (P, V, P)),
            detected_by=None)
json.dump(meta, open(d + '/meta.json', 'w'), indent=1)
print(sid)

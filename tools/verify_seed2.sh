#!/bin/bash
# usage: verify_seed2.sh Cxx A|B    -- confirm a two-patch seed in its scratch worktree /tmp/wt/Cxx (no git stash)
P=$1; V=$2; WT=/tmp/wt/$P
cd $WT || exit 9
if [ -n "$(git diff --stat -- pyiga scripts setup.py)" ]; then echo "$P: tree not clean"; git diff --stat; exit 7; fi
NEEDBUILD=$(grep -c '^+++ b/.*\.\(pyx\|pxi\|pxd\|cc\|cpp\|h\)$' $WT/$V.patch)
PYTHONPATH=$WT timeout 900 /venv/bin/python demo_$V.py > /tmp/wt/$P.$V.without.log 2>&1; WO=$?
git apply $WT/$V.patch || { echo "$P $V: patch does not apply"; exit 8; }
if [ "$NEEDBUILD" != 0 ]; then /venv/bin/python setup.py build_ext --inplace > /tmp/wt/$P.$V.build.log 2>&1; rm -rf build; fi
PYTHONPATH=$WT timeout 900 /venv/bin/python demo_$V.py > /tmp/wt/$P.$V.with.log 2>&1; W=$?
T=$(PYTHONPATH=$WT timeout 1800 /venv/bin/python -m pytest -q -p no:cacheprovider --timeout=900 -n 6 2>&1 | tail -1)
git apply -R $WT/$V.patch
if [ "$NEEDBUILD" != 0 ]; then cp /repo/pyiga/*.so $WT/pyiga/; git checkout -- pyiga/*.c pyiga/*.cpp 2>/dev/null; fi
echo "$P $V: with exit=$W ($(tail -1 /tmp/wt/$P.$V.with.log | cut -c1-80)) | without exit=$WO ($(tail -1 /tmp/wt/$P.$V.without.log | cut -c1-60)) | tests: $T | needbuild=$NEEDBUILD"

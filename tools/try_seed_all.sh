#!/bin/bash
# usage: tools/try_seed_all.sh seed_dir...  -- like try_seed.sh but runs the checks of ALL properties
cd /verif
for s in "$@"; do
  s=${s%/}
  if ! git -C /repo apply /verif/$s/patch.diff 2>/tmp/apply_err.txt; then echo "$s: patch does not apply"; continue; fi
  ./check all --no-write > /tmp/seed_out_all.txt 2>&1; code=$?
  git -C /repo checkout -- .
  echo "$s all exit=$code: $(grep '^VIOLATION' /tmp/seed_out_all.txt | sed 's/ replay=.*//' | tr '\n' ' ')"
  grep -E '^pyiga|ANALYSIS' /tmp/seed_out_all.txt | cut -c1-200 | head -3
done

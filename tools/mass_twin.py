#!/venv/bin/python
"""Mass refactor twins: apply ONE behaviour-preserving transformation to every function of pyiga/*.py in a scratch copy
(outside /repo and /verif) and print where the copy was written.  Used by hand to look for rules that alarm on rewrites:

    /venv/bin/python tools/mass_twin.py rename   /tmp/twin_rename     # every local variable renamed (x -> x_r)
    /venv/bin/python tools/mass_twin.py ifswap   /tmp/twin_ifswap     # if c: A else: B  ->  if not c: B else: A
    /venv/bin/python tools/mass_twin.py temp     /tmp/twin_temp       # return <expr>  ->  _ret = <expr>; return _ret
    ./check all --repo /tmp/twin_rename --no-write
"""
import ast
import os
import shutil
import sys


def local_names(fn):
    params = {a.arg for a in fn.args.args + fn.args.kwonlyargs + fn.args.posonlyargs}
    if fn.args.vararg:
        params.add(fn.args.vararg.arg)
    if fn.args.kwarg:
        params.add(fn.args.kwarg.arg)
    declared = set()
    stores = set()
    nested_use = set()

    def walk(n, top):
        for c in ast.iter_child_nodes(n):
            if isinstance(c, (ast.FunctionDef, ast.AsyncFunctionDef, ast.Lambda, ast.ClassDef)):
                for x in ast.walk(c):
                    if isinstance(x, ast.Name):
                        nested_use.add(x.id)
                    if isinstance(x, ast.arg):
                        nested_use.add(x.arg)
                continue
            if isinstance(c, (ast.Global, ast.Nonlocal)):
                declared.update(c.names)
            if isinstance(c, ast.Name) and isinstance(c.ctx, ast.Store):
                stores.add(c.id)
            walk(c, False)
    walk(fn, True)
    # names bound by comprehensions are local to them in py3: leave them alone (they are alpha-renamed anyway)
    comp = set()
    for x in ast.walk(fn):
        if isinstance(x, ast.comprehension):
            for t in ast.walk(x.target):
                if isinstance(t, ast.Name):
                    comp.add(t.id)
    return {s for s in stores if s not in params and s not in declared and s not in nested_use and s not in comp
            and not s.startswith('__')}


class Rename(ast.NodeTransformer):
    def __init__(self):
        self.stack = []

    def visit_FunctionDef(self, node):
        names = local_names(node)
        self.stack.append(names)
        node.body = [self.visit(s) for s in node.body]
        self.stack.pop()
        return node
    visit_AsyncFunctionDef = visit_FunctionDef

    def visit_Lambda(self, node):
        return node

    def visit_ClassDef(self, node):
        saved, self.stack = self.stack, []
        self.generic_visit(node)
        self.stack = saved
        return node

    def visit_Name(self, node):
        if self.stack and node.id in self.stack[-1]:
            return ast.copy_location(ast.Name(id=node.id + '_r', ctx=node.ctx), node)
        return node


class IfSwap(ast.NodeTransformer):
    def visit_If(self, node):
        self.generic_visit(node)
        if node.orelse and not (len(node.orelse) == 1 and isinstance(node.orelse[0], ast.If)):
            node.test, node.body, node.orelse = ast.UnaryOp(op=ast.Not(), operand=node.test), node.orelse, node.body
        return node


class RetTemp(ast.NodeTransformer):
    def _block(self, stmts):
        out = []
        for s in stmts:
            s = self.visit(s)
            if isinstance(s, ast.Return) and s.value is not None and not isinstance(s.value, (ast.Name, ast.Constant)):
                out.append(ast.Assign(targets=[ast.Name(id='_ret', ctx=ast.Store())], value=s.value, lineno=s.lineno))
                out.append(ast.Return(value=ast.Name(id='_ret', ctx=ast.Load())))
            else:
                out.append(s)
        return out

    def generic_visit(self, node):
        for fld in ('body', 'orelse', 'finalbody'):
            blk = getattr(node, fld, None)
            if isinstance(blk, list) and blk and isinstance(blk[0], ast.stmt):
                setattr(node, fld, self._block(blk))
        for h in getattr(node, 'handlers', []) or []:
            h.body = self._block(h.body)
        return node

    def visit_Lambda(self, node):
        return node


def main():
    kind, dest = sys.argv[1], sys.argv[2]
    repo = sys.argv[3] if len(sys.argv) > 3 else '/repo'
    if os.path.exists(dest):
        shutil.rmtree(dest)
    os.makedirs(dest)
    for sub in ('pyiga', 'scripts'):
        shutil.copytree(os.path.join(repo, sub), os.path.join(dest, sub),
                        ignore=shutil.ignore_patterns('*.so', '*.c', '*.cpp', '__pycache__', 'build', '*.o'))
    T = {'rename': Rename, 'ifswap': IfSwap, 'temp': RetTemp}[kind]
    n = 0
    for root, _d, files in os.walk(os.path.join(dest, 'pyiga')):
        for f in files:
            if not f.endswith('.py'):
                continue
            p = os.path.join(root, f)
            text = open(p).read()
            try:
                tree = ast.parse(text)
                tree = T().visit(tree)
                ast.fix_missing_locations(tree)
                new = ast.unparse(tree)
                ast.parse(new)
            except Exception as e:
                print('skip', p, e)
                continue
            open(p, 'w').write(new + '\n')
            n += 1
    print('transformed', n, 'files ->', dest)


if __name__ == '__main__':
    main()

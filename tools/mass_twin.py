#!/venv/bin/python
"""Mass refactor twins: apply ONE behaviour-preserving transformation to every function of pyiga/*.py in a scratch copy
(outside /repo and /verif) and print where the copy was written.  Used by hand to look for rules that alarm on rewrites:

    /venv/bin/python tools/mass_twin.py rename   /tmp/twin_rename     # every local variable renamed (x -> x_r)
    /venv/bin/python tools/mass_twin.py ifswap   /tmp/twin_ifswap     # if c: A else: B  ->  if not c: B else: A
    /venv/bin/python tools/mass_twin.py temp     /tmp/twin_temp       # return <expr>  ->  _ret = <expr>; return _ret
    ./check all --repo /tmp/twin_rename --no-write
"""
import ast
import os
import shutil
import sys


def local_names(fn):
    params = {a.arg for a in fn.args.args + fn.args.kwonlyargs + fn.args.posonlyargs}
    if fn.args.vararg:
        params.add(fn.args.vararg.arg)
    if fn.args.kwarg:
        params.add(fn.args.kwarg.arg)
    declared = set()
    stores = set()
    nested_use = set()

    def walk(n, top):
        for c in ast.iter_child_nodes(n):
            if isinstance(c, (ast.FunctionDef, ast.AsyncFunctionDef, ast.Lambda, ast.ClassDef)):
                for x in ast.walk(c):
                    if isinstance(x, ast.Name):
                        nested_use.add(x.id)
                    if isinstance(x, ast.arg):
                        nested_use.add(x.arg)
                continue
            if isinstance(c, (ast.Global, ast.Nonlocal)):
                declared.update(c.names)
            if isinstance(c, ast.Name) and isinstance(c.ctx, ast.Store):
                stores.add(c.id)
            walk(c, False)
    walk(fn, True)
    # names bound by comprehensions are local to them in py3: leave them alone (they are alpha-renamed anyway)
    comp = set()
    for x in ast.walk(fn):
        if isinstance(x, ast.comprehension):
            for t in ast.walk(x.target):
                if isinstance(t, ast.Name):
                    comp.add(t.id)
    return {s for s in stores if s not in params and s not in declared and s not in nested_use and s not in comp
            and not s.startswith('__')}


class Rename(ast.NodeTransformer):
    def __init__(self):
        self.stack = []

    def visit_FunctionDef(self, node):
        names = local_names(node)
        self.stack.append(names)
        node.body = [self.visit(s) for s in node.body]
        self.stack.pop()
        return node
    visit_AsyncFunctionDef = visit_FunctionDef

    def visit_Lambda(self, node):
        return node

    def visit_ClassDef(self, node):
        saved, self.stack = self.stack, []
        self.generic_visit(node)
        self.stack = saved
        return node

    def visit_Name(self, node):
        if self.stack and node.id in self.stack[-1]:
            return ast.copy_location(ast.Name(id=node.id + '_r', ctx=node.ctx), node)
        return node


class IfSwap(ast.NodeTransformer):
    def visit_If(self, node):
        self.generic_visit(node)
        if node.orelse and not (len(node.orelse) == 1 and isinstance(node.orelse[0], ast.If)):
            node.test, node.body, node.orelse = ast.UnaryOp(op=ast.Not(), operand=node.test), node.orelse, node.body
        return node


class RetTemp(ast.NodeTransformer):
    def _block(self, stmts):
        out = []
        for s in stmts:
            s = self.visit(s)
            if isinstance(s, ast.Return) and s.value is not None and not isinstance(s.value, (ast.Name, ast.Constant)):
                out.append(ast.Assign(targets=[ast.Name(id='_ret', ctx=ast.Store())], value=s.value, lineno=s.lineno))
                out.append(ast.Return(value=ast.Name(id='_ret', ctx=ast.Load())))
            else:
                out.append(s)
        return out

    def generic_visit(self, node):
        for fld in ('body', 'orelse', 'finalbody'):
            blk = getattr(node, fld, None)
            if isinstance(blk, list) and blk and isinstance(blk[0], ast.stmt):
                setattr(node, fld, self._block(blk))
        for h in getattr(node, 'handlers', []) or []:
            h.body = self._block(h.body)
        return node

    def visit_Lambda(self, node):
        return node


def _simple(e):
    """evaluation of e has no side effect and cannot be observed: names, attributes, constants, subscripts of those,
    arithmetic on those (no calls)"""
    return not any(isinstance(x, (ast.Call, ast.Await, ast.Yield, ast.YieldFrom, ast.NamedExpr, ast.Lambda, ast.ListComp, ast.GeneratorExp,
                                  ast.SetComp, ast.DictComp)) for x in ast.walk(e))


class CmpFlip(ast.NodeTransformer):
    """a < b  ->  b > a   (both operands free of calls)"""
    FLIP = {ast.Lt: ast.Gt, ast.Gt: ast.Lt, ast.LtE: ast.GtE, ast.GtE: ast.LtE, ast.Eq: ast.Eq, ast.NotEq: ast.NotEq}

    def visit_Compare(self, node):
        self.generic_visit(node)
        if len(node.ops) == 1 and type(node.ops[0]) in self.FLIP and _simple(node.left) and _simple(node.comparators[0]):
            return ast.Compare(left=node.comparators[0], ops=[self.FLIP[type(node.ops[0])]()], comparators=[node.left])
        return node


class NestAnd(ast.NodeTransformer):
    """if a and b: X   (no else)  ->  if a: if b: X"""
    def visit_If(self, node):
        self.generic_visit(node)
        if not node.orelse and isinstance(node.test, ast.BoolOp) and isinstance(node.test.op, ast.And) and len(node.test.values) == 2:
            a, b = node.test.values
            return ast.If(test=a, body=[ast.If(test=b, body=node.body, orelse=[])], orelse=[])
        return node


class TestTemp(ast.NodeTransformer):
    """if T: ...  ->  _t = T; if _t: ...   (plain `if` statements that are not an elif)"""
    def _block(self, stmts, is_elif_block=False):
        out = []
        for i, s in enumerate(stmts):
            s = self.visit(s)
            if isinstance(s, ast.If) and not (is_elif_block and i == 0 and len(stmts) == 1) and not isinstance(s.test, (ast.Name, ast.Constant)):
                out.append(ast.Assign(targets=[ast.Name(id='_t', ctx=ast.Store())], value=s.test, lineno=s.lineno))
                s.test = ast.Name(id='_t', ctx=ast.Load())
            out.append(s)
        return out

    def generic_visit(self, node):
        for fld in ('body', 'orelse', 'finalbody'):
            blk = getattr(node, fld, None)
            if isinstance(blk, list) and blk and isinstance(blk[0], ast.stmt):
                setattr(node, fld, self._block(blk, is_elif_block=(fld == 'orelse' and isinstance(node, ast.If))))
        for h in getattr(node, 'handlers', []) or []:
            h.body = self._block(h.body)
        return node

    def visit_Lambda(self, node):
        return node


class Early(ast.NodeTransformer):
    """if c: A...return  else: B   ->   if c: A...return ; B"""
    def _block(self, stmts):
        out = []
        for s in stmts:
            s = self.visit(s)
            if isinstance(s, ast.If) and s.orelse and s.body and isinstance(s.body[-1], (ast.Return, ast.Raise, ast.Continue, ast.Break)):
                rest, s.orelse = s.orelse, []
                out.append(s)
                out.extend(rest)
            else:
                out.append(s)
        return out

    def generic_visit(self, node):
        for fld in ('body', 'orelse', 'finalbody'):
            blk = getattr(node, fld, None)
            if isinstance(blk, list) and blk and isinstance(blk[0], ast.stmt):
                setattr(node, fld, self._block(blk))
        for h in getattr(node, 'handlers', []) or []:
            h.body = self._block(h.body)
        return node

    def visit_Lambda(self, node):
        return node


class Range0(ast.NodeTransformer):
    """range(n) -> range(0, n);  x[:k] -> x[0:k]"""
    def visit_Call(self, node):
        self.generic_visit(node)
        if isinstance(node.func, ast.Name) and node.func.id == 'range' and len(node.args) == 1 and not node.keywords:
            node.args = [ast.Constant(value=0), node.args[0]]
        return node

    def visit_Slice(self, node):
        self.generic_visit(node)
        if node.lower is None and node.upper is not None and node.step is None:
            u = node.upper
            # x[:k] = x[0:k] for every int k (negative k included)
            node.lower = ast.Constant(value=0)
        return node


class NotIn(ast.NodeTransformer):
    """a not in b -> not (a in b);  a is not b -> not (a is b);  a != b stays"""
    def visit_Compare(self, node):
        self.generic_visit(node)
        if len(node.ops) == 1 and isinstance(node.ops[0], ast.NotIn):
            return ast.UnaryOp(op=ast.Not(), operand=ast.Compare(left=node.left, ops=[ast.In()], comparators=node.comparators))
        if len(node.ops) == 1 and isinstance(node.ops[0], ast.IsNot):
            return ast.UnaryOp(op=ast.Not(), operand=ast.Compare(left=node.left, ops=[ast.Is()], comparators=node.comparators))
        return node


class Chain(ast.NodeTransformer):
    """a < b < c  ->  a < b and b < c   (b free of calls)"""
    def visit_Compare(self, node):
        self.generic_visit(node)
        if len(node.ops) == 2 and _simple(node.comparators[0]):
            import copy
            b = node.comparators[0]
            return ast.BoolOp(op=ast.And(), values=[ast.Compare(left=node.left, ops=[node.ops[0]], comparators=[b]),
                                                    ast.Compare(left=copy.deepcopy(b), ops=[node.ops[1]], comparators=[node.comparators[1]])])
        return node


class Unpack(ast.NodeTransformer):
    """a, b = x, y  ->  a = x; b = y   when the targets are plain names that no right-hand side reads"""
    def _block(self, stmts):
        out = []
        for s in stmts:
            s = self.visit(s)
            if isinstance(s, ast.Assign) and len(s.targets) == 1 and isinstance(s.targets[0], ast.Tuple) and isinstance(s.value, ast.Tuple) \
                    and len(s.targets[0].elts) == len(s.value.elts) and all(isinstance(t, ast.Name) for t in s.targets[0].elts):
                tn = {t.id for t in s.targets[0].elts}
                reads = {x.id for v in s.value.elts for x in ast.walk(v) if isinstance(x, ast.Name)}
                if not (tn & reads) and all(_simple(v) for v in s.value.elts):
                    for t, v in zip(s.targets[0].elts, s.value.elts):
                        out.append(ast.Assign(targets=[t], value=v, lineno=s.lineno))
                    continue
            out.append(s)
        return out

    def generic_visit(self, node):
        for fld in ('body', 'orelse', 'finalbody'):
            blk = getattr(node, fld, None)
            if isinstance(blk, list) and blk and isinstance(blk[0], ast.stmt):
                setattr(node, fld, self._block(blk))
        for h in getattr(node, 'handlers', []) or []:
            h.body = self._block(h.body)
        return node


class Reorder(ast.NodeTransformer):
    """swap two adjacent assignments to plain names that are independent of each other (call-free right-hand sides)"""
    def _block(self, stmts):
        stmts = [self.visit(s) for s in stmts]
        out, i = [], 0
        while i < len(stmts):
            a = stmts[i]
            b = stmts[i + 1] if i + 1 < len(stmts) else None
            if b is not None and self._indep(a, b):
                out.extend([b, a])
                i += 2
            else:
                out.append(a)
                i += 1
        return out

    @staticmethod
    def _indep(a, b):
        for s in (a, b):
            if not (isinstance(s, ast.Assign) and len(s.targets) == 1 and isinstance(s.targets[0], ast.Name) and _simple(s.value)):
                return False
        ta, tb = a.targets[0].id, b.targets[0].id
        ra = {x.id for x in ast.walk(a.value) if isinstance(x, ast.Name)}
        rb = {x.id for x in ast.walk(b.value) if isinstance(x, ast.Name)}
        return ta != tb and ta not in rb and tb not in ra

    def generic_visit(self, node):
        for fld in ('body', 'orelse', 'finalbody'):
            blk = getattr(node, fld, None)
            if isinstance(blk, list) and blk and isinstance(blk[0], ast.stmt):
                setattr(node, fld, self._block(blk))
        for h in getattr(node, 'handlers', []) or []:
            h.body = self._block(h.body)
        return node

    def visit_Lambda(self, node):
        return node

    def visit_ClassDef(self, node):
        # class bodies: only descend into methods
        node.body = [self.visit(s) if isinstance(s, (ast.FunctionDef, ast.AsyncFunctionDef, ast.ClassDef)) else s for s in node.body]
        return node

    def visit_Module(self, node):
        node.body = [self.visit(s) if isinstance(s, (ast.FunctionDef, ast.AsyncFunctionDef, ast.ClassDef)) else s for s in node.body]
        return node


class KwLast(ast.NodeTransformer):
    """f(a, b) -> f(a, y=b) for calls of a function defined exactly once at the top level of the same module (plain
    positional parameters, no decorators, name not rebound anywhere in the module)"""
    def visit_Module(self, node):
        defs = {}
        for s in node.body:
            if isinstance(s, ast.FunctionDef):
                defs.setdefault(s.name, []).append(s)
        stores = {x.id for x in ast.walk(node) if isinstance(x, ast.Name) and isinstance(x.ctx, ast.Store)} | \
                 {a.arg for a in ast.walk(node) if isinstance(a, ast.arg)}
        self.sig = {}
        for name, ds in defs.items():
            d = ds[0]
            if len(ds) == 1 and not d.decorator_list and name not in stores and not d.args.posonlyargs and not d.args.vararg:
                self.sig[name] = [a.arg for a in d.args.args]
        self.generic_visit(node)
        return node

    def visit_Call(self, node):
        self.generic_visit(node)
        if isinstance(node.func, ast.Name) and node.func.id in getattr(self, 'sig', {}) and node.args \
                and not any(isinstance(a, ast.Starred) for a in node.args) and not any(k.arg is None for k in node.keywords):
            params = self.sig[node.func.id]
            n = len(node.args)
            if n <= len(params) and params[n - 1] not in {k.arg for k in node.keywords}:
                last = node.args.pop()
                node.keywords.insert(0, ast.keyword(arg=params[n - 1], value=last))
        return node


class LoopGuard(ast.NodeTransformer):
    """for ...: S...; if T: BODY   ->   for ...: S...; if not T: continue; BODY      (the if is the last statement of the loop
    body and has no else); same for a function body with `return` instead of `continue`"""
    def _guard(self, body, exit_stmt):
        if body and isinstance(body[-1], ast.If) and not body[-1].orelse and len(body[-1].body) >= 1 \
                and not any(isinstance(x, (ast.Yield, ast.YieldFrom)) for x in ast.walk(body[-1])):
            iff = body[-1]
            g = ast.If(test=ast.UnaryOp(op=ast.Not(), operand=iff.test), body=[exit_stmt], orelse=[])
            return body[:-1] + [g] + iff.body
        return body

    def visit_For(self, node):
        self.generic_visit(node)
        if not node.orelse:
            node.body = self._guard(node.body, ast.Continue())
        return node

    visit_While = visit_For

    def visit_FunctionDef(self, node):
        self.generic_visit(node)
        if not any(isinstance(x, (ast.Yield, ast.YieldFrom)) for x in ast.walk(node)):
            node.body = self._guard(node.body, ast.Return(value=None))
        return node


class IntTemp(ast.NodeTransformer):
    """for v in range(...): ... v + 1 ...   ->   v_nx = v + 1 at the top of the body, every `v + 1` read through it"""
    def visit_For(self, node):
        self.generic_visit(node)
        if not (isinstance(node.target, ast.Name) and isinstance(node.iter, ast.Call) and isinstance(node.iter.func, ast.Name)
                and node.iter.func.id == 'range'):
            return node
        v = node.target.id
        if any(isinstance(x, ast.Name) and x.id == v and isinstance(x.ctx, ast.Store) for s_ in node.body for x in ast.walk(s_)):
            return node
        if any(isinstance(x, (ast.FunctionDef, ast.Lambda, ast.Global, ast.Nonlocal)) for s_ in node.body for x in ast.walk(s_)):
            return node
        nx = v + '_nx'
        hit = [0]

        class Sub(ast.NodeTransformer):
            def visit_BinOp(self, b):
                self.generic_visit(b)
                if isinstance(b.op, ast.Add) and isinstance(b.left, ast.Name) and b.left.id == v and isinstance(b.right, ast.Constant) \
                        and b.right.value == 1 and type(b.right.value) is int:
                    hit[0] += 1
                    return ast.copy_location(ast.Name(id=nx, ctx=ast.Load()), b)
                return b
        body = [Sub().visit(s_) for s_ in node.body]
        if hit[0]:
            node.body = [ast.Assign(targets=[ast.Name(id=nx, ctx=ast.Store())],
                                    value=ast.BinOp(left=ast.Name(id=v, ctx=ast.Load()), op=ast.Add(), right=ast.Constant(1)))] + body
        return node


class Comp2Loop(ast.NodeTransformer):
    """x = [E for t in IT if C]   ->   x = []; for t_c in IT: if C: x.append(E)      (single generator, statement level; the loop
    variable gets a fresh name because a comprehension variable does not leak into the function scope)"""
    def _block(self, stmts):
        out = []
        for s_ in stmts:
            s_ = self.visit(s_)
            if isinstance(s_, ast.Assign) and len(s_.targets) == 1 and isinstance(s_.targets[0], ast.Name) and isinstance(s_.value, ast.ListComp) \
                    and len(s_.value.generators) == 1 and not s_.value.generators[0].is_async \
                    and not any(isinstance(x, (ast.Lambda, ast.ListComp, ast.GeneratorExp, ast.SetComp, ast.DictComp, ast.NamedExpr)) for x in ast.walk(s_.value.elt)) \
                    and not any(isinstance(x, ast.Name) and x.id == s_.targets[0].id for x in ast.walk(s_.value)):
                g = s_.value.generators[0]
                tn = {x.id for x in ast.walk(g.target) if isinstance(x, ast.Name)}

                class Ren(ast.NodeTransformer):
                    def visit_Name(self, n):
                        return ast.copy_location(ast.Name(id=n.id + '_c', ctx=n.ctx), n) if n.id in tn else n
                x = s_.targets[0].id
                app = ast.Expr(ast.Call(func=ast.Attribute(value=ast.Name(id=x, ctx=ast.Load()), attr='append', ctx=ast.Load()),
                                        args=[Ren().visit(s_.value.elt)], keywords=[]))
                inner = [app]
                for c in reversed(g.ifs):
                    inner = [ast.If(test=Ren().visit(c), body=inner, orelse=[])]
                out.append(ast.Assign(targets=[ast.Name(id=x, ctx=ast.Store())], value=ast.List(elts=[], ctx=ast.Load())))
                out.append(ast.For(target=Ren().visit(g.target), iter=g.iter, body=inner, orelse=[]))
            else:
                out.append(s_)
        return out

    def generic_visit(self, node):
        for fld in ('body', 'orelse', 'finalbody'):
            blk = getattr(node, fld, None)
            if isinstance(blk, list) and blk and isinstance(blk[0], ast.stmt):
                setattr(node, fld, self._block(blk))
        for h in getattr(node, 'handlers', []) or []:
            h.body = self._block(h.body)
        return node

    def visit_Lambda(self, node):
        return node

    def visit_ClassDef(self, node):
        # class-level comprehensions have their own scoping rules: only methods are rewritten
        node.body = [self.visit(s_) if isinstance(s_, (ast.FunctionDef, ast.ClassDef)) else s_ for s_ in node.body]
        return node

    def visit_Module(self, node):
        node.body = [self.visit(s_) if isinstance(s_, (ast.FunctionDef, ast.ClassDef)) else s_ for s_ in node.body]
        return node


class IfExp(ast.NodeTransformer):
    """if c: x = A else: x = B  ->  x = A if c else B ;   if c: return A else: return B  ->  return A if c else B"""
    def visit_If(self, node):
        self.generic_visit(node)
        if len(node.body) == 1 and len(node.orelse) == 1:
            a, b = node.body[0], node.orelse[0]
            if isinstance(a, ast.Return) and isinstance(b, ast.Return) and a.value is not None and b.value is not None:
                return ast.copy_location(ast.Return(value=ast.IfExp(test=node.test, body=a.value, orelse=b.value)), node)
            if isinstance(a, ast.Assign) and isinstance(b, ast.Assign) and len(a.targets) == 1 and len(b.targets) == 1 \
                    and isinstance(a.targets[0], ast.Name) and isinstance(b.targets[0], ast.Name) and a.targets[0].id == b.targets[0].id:
                return ast.copy_location(ast.Assign(targets=[a.targets[0]], value=ast.IfExp(test=node.test, body=a.value, orelse=b.value)), node)
        return node


class DeMorgan(ast.NodeTransformer):
    """if a and b  ->  if not (not a or not b) ;  if a or b  ->  if not (not a and not b)     (tests of if / while only)"""
    def _dm(self, t):
        if isinstance(t, ast.BoolOp):
            other = ast.Or() if isinstance(t.op, ast.And) else ast.And()
            return ast.UnaryOp(op=ast.Not(), operand=ast.BoolOp(op=other, values=[ast.UnaryOp(op=ast.Not(), operand=v) for v in t.values]))
        return t

    def visit_If(self, node):
        self.generic_visit(node)
        node.test = self._dm(node.test)
        return node

    visit_While = visit_If


class ArgTemp(ast.NodeTransformer):
    """x = F(G(..), ...)  ->  _a0 = G(..); x = F(_a0, ...)      (first positional argument, when it is a call and F is a dotted name)"""
    def _dotted(self, f):
        while isinstance(f, ast.Attribute):
            f = f.value
        return isinstance(f, ast.Name)

    def _block(self, stmts):
        out = []
        for s_ in stmts:
            s_ = self.visit(s_)
            call = None
            if isinstance(s_, (ast.Assign, ast.Return, ast.Expr)) and isinstance(getattr(s_, 'value', None), ast.Call):
                call = s_.value
            if call is not None and self._dotted(call.func) and call.args and isinstance(call.args[0], ast.Call) \
                    and not any(isinstance(x, (ast.Lambda, ast.Yield, ast.YieldFrom, ast.NamedExpr, ast.Starred)) for x in ast.walk(call)) \
                    and not (isinstance(s_, ast.Assign) and any(not isinstance(t, ast.Name) for t in s_.targets)):
                out.append(ast.Assign(targets=[ast.Name(id='_a0', ctx=ast.Store())], value=call.args[0]))
                call.args[0] = ast.Name(id='_a0', ctx=ast.Load())
            out.append(s_)
        return out

    def generic_visit(self, node):
        for fld in ('body', 'orelse', 'finalbody'):
            blk = getattr(node, fld, None)
            if isinstance(blk, list) and blk and isinstance(blk[0], ast.stmt):
                setattr(node, fld, self._block(blk))
        for h in getattr(node, 'handlers', []) or []:
            h.body = self._block(h.body)
        return node

    def visit_Lambda(self, node):
        return node

    def visit_ClassDef(self, node):
        node.body = [self.visit(s_) if isinstance(s_, (ast.FunctionDef, ast.ClassDef)) else s_ for s_ in node.body]
        return node

    def visit_Module(self, node):
        node.body = [self.visit(s_) if isinstance(s_, (ast.FunctionDef, ast.ClassDef)) else s_ for s_ in node.body]
        return node


def main():
    kind, dest = sys.argv[1], sys.argv[2]
    repo = sys.argv[3] if len(sys.argv) > 3 else '/repo'
    if os.path.exists(dest):
        shutil.rmtree(dest)
    os.makedirs(dest)
    for sub in ('pyiga', 'scripts'):
        shutil.copytree(os.path.join(repo, sub), os.path.join(dest, sub),
                        ignore=shutil.ignore_patterns('*.so', '*.c', '*.cpp', '__pycache__', 'build', '*.o'))
    T = {'rename': Rename, 'ifswap': IfSwap, 'temp': RetTemp, 'cmpflip': CmpFlip, 'nestand': NestAnd, 'testtemp': TestTemp,
         'early': Early, 'loopguard': LoopGuard, 'inttemp': IntTemp, 'comp2loop': Comp2Loop, 'ifexp': IfExp, 'demorgan': DeMorgan, 'argtemp': ArgTemp, 'range0': Range0, 'notin': NotIn, 'chain': Chain, 'unpack': Unpack, 'reorder': Reorder, 'kwlast': KwLast}[kind]
    n = 0
    for root, _d, files in os.walk(os.path.join(dest, 'pyiga')):
        for f in files:
            if not f.endswith('.py'):
                continue
            p = os.path.join(root, f)
            text = open(p).read()
            try:
                tree = ast.parse(text)
                tree = T().visit(tree)
                ast.fix_missing_locations(tree)
                new = ast.unparse(tree)
                ast.parse(new)
            except Exception as e:
                print('skip', p, e)
                continue
            open(p, 'w').write(new + '\n')
            n += 1
    print('transformed', n, 'files ->', dest)


if __name__ == '__main__':
    main()

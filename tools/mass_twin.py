#!/venv/bin/python
"""Mass refactor twins: apply ONE behaviour-preserving transformation to every function of pyiga/*.py in a scratch copy
(outside /repo and /verif) and print where the copy was written.  Used by hand to look for rules that alarm on rewrites:

    /venv/bin/python tools/mass_twin.py rename   /tmp/twin_rename     # every local variable renamed (x -> x_r)
    /venv/bin/python tools/mass_twin.py ifswap   /tmp/twin_ifswap     # if c: A else: B  ->  if not c: B else: A
    /venv/bin/python tools/mass_twin.py temp     /tmp/twin_temp       # return <expr>  ->  _ret = <expr>; return _ret
    ./check all --repo /tmp/twin_rename --no-write
"""
import ast
import os
import shutil
import sys


def local_names(fn):
    params = {a.arg for a in fn.args.args + fn.args.kwonlyargs + fn.args.posonlyargs}
    if fn.args.vararg:
        params.add(fn.args.vararg.arg)
    if fn.args.kwarg:
        params.add(fn.args.kwarg.arg)
    declared = set()
    stores = set()
    nested_use = set()

    def walk(n, top):
        for c in ast.iter_child_nodes(n):
            if isinstance(c, (ast.FunctionDef, ast.AsyncFunctionDef, ast.Lambda, ast.ClassDef)):
                for x in ast.walk(c):
                    if isinstance(x, ast.Name):
                        nested_use.add(x.id)
                    if isinstance(x, ast.arg):
                        nested_use.add(x.arg)
                continue
            if isinstance(c, (ast.Global, ast.Nonlocal)):
                declared.update(c.names)
            if isinstance(c, ast.Name) and isinstance(c.ctx, ast.Store):
                stores.add(c.id)
            walk(c, False)
    walk(fn, True)
    # names bound by comprehensions are local to them in py3: leave them alone (they are alpha-renamed anyway)
    comp = set()
    for x in ast.walk(fn):
        if isinstance(x, ast.comprehension):
            for t in ast.walk(x.target):
                if isinstance(t, ast.Name):
                    comp.add(t.id)
    return {s for s in stores if s not in params and s not in declared and s not in nested_use and s not in comp
            and not s.startswith('__')}


class Rename(ast.NodeTransformer):
    def __init__(self):
        self.stack = []

    def visit_FunctionDef(self, node):
        names = local_names(node)
        self.stack.append(names)
        node.body = [self.visit(s) for s in node.body]
        self.stack.pop()
        return node
    visit_AsyncFunctionDef = visit_FunctionDef

    def visit_Lambda(self, node):
        return node

    def visit_ClassDef(self, node):
        saved, self.stack = self.stack, []
        self.generic_visit(node)
        self.stack = saved
        return node

    def visit_Name(self, node):
        if self.stack and node.id in self.stack[-1]:
            return ast.copy_location(ast.Name(id=node.id + '_r', ctx=node.ctx), node)
        return node


class IfSwap(ast.NodeTransformer):
    def visit_If(self, node):
        self.generic_visit(node)
        if node.orelse and not (len(node.orelse) == 1 and isinstance(node.orelse[0], ast.If)):
            node.test, node.body, node.orelse = ast.UnaryOp(op=ast.Not(), operand=node.test), node.orelse, node.body
        return node


class RetTemp(ast.NodeTransformer):
    def _block(self, stmts):
        out = []
        for s in stmts:
            s = self.visit(s)
            if isinstance(s, ast.Return) and s.value is not None and not isinstance(s.value, (ast.Name, ast.Constant)):
                out.append(ast.Assign(targets=[ast.Name(id='_ret', ctx=ast.Store())], value=s.value, lineno=s.lineno))
                out.append(ast.Return(value=ast.Name(id='_ret', ctx=ast.Load())))
            else:
                out.append(s)
        return out

    def generic_visit(self, node):
        for fld in ('body', 'orelse', 'finalbody'):
            blk = getattr(node, fld, None)
            if isinstance(blk, list) and blk and isinstance(blk[0], ast.stmt):
                setattr(node, fld, self._block(blk))
        for h in getattr(node, 'handlers', []) or []:
            h.body = self._block(h.body)
        return node

    def visit_Lambda(self, node):
        return node


def _simple(e):
    """evaluation of e has no side effect and cannot be observed: names, attributes, constants, subscripts of those,
    arithmetic on those (no calls)"""
    return not any(isinstance(x, (ast.Call, ast.Await, ast.Yield, ast.YieldFrom, ast.NamedExpr, ast.Lambda, ast.ListComp, ast.GeneratorExp,
                                  ast.SetComp, ast.DictComp)) for x in ast.walk(e))


class CmpFlip(ast.NodeTransformer):
    """a < b  ->  b > a   (both operands free of calls)"""
    FLIP = {ast.Lt: ast.Gt, ast.Gt: ast.Lt, ast.LtE: ast.GtE, ast.GtE: ast.LtE, ast.Eq: ast.Eq, ast.NotEq: ast.NotEq}

    def visit_Compare(self, node):
        self.generic_visit(node)
        if len(node.ops) == 1 and type(node.ops[0]) in self.FLIP and _simple(node.left) and _simple(node.comparators[0]):
            return ast.Compare(left=node.comparators[0], ops=[self.FLIP[type(node.ops[0])]()], comparators=[node.left])
        return node


class NestAnd(ast.NodeTransformer):
    """if a and b: X   (no else)  ->  if a: if b: X"""
    def visit_If(self, node):
        self.generic_visit(node)
        if not node.orelse and isinstance(node.test, ast.BoolOp) and isinstance(node.test.op, ast.And) and len(node.test.values) == 2:
            a, b = node.test.values
            return ast.If(test=a, body=[ast.If(test=b, body=node.body, orelse=[])], orelse=[])
        return node


class TestTemp(ast.NodeTransformer):
    """if T: ...  ->  _t = T; if _t: ...   (plain `if` statements that are not an elif)"""
    def _block(self, stmts, is_elif_block=False):
        out = []
        for i, s in enumerate(stmts):
            s = self.visit(s)
            if isinstance(s, ast.If) and not (is_elif_block and i == 0 and len(stmts) == 1) and not isinstance(s.test, (ast.Name, ast.Constant)):
                out.append(ast.Assign(targets=[ast.Name(id='_t', ctx=ast.Store())], value=s.test, lineno=s.lineno))
                s.test = ast.Name(id='_t', ctx=ast.Load())
            out.append(s)
        return out

    def generic_visit(self, node):
        for fld in ('body', 'orelse', 'finalbody'):
            blk = getattr(node, fld, None)
            if isinstance(blk, list) and blk and isinstance(blk[0], ast.stmt):
                setattr(node, fld, self._block(blk, is_elif_block=(fld == 'orelse' and isinstance(node, ast.If))))
        for h in getattr(node, 'handlers', []) or []:
            h.body = self._block(h.body)
        return node

    def visit_Lambda(self, node):
        return node


class Early(ast.NodeTransformer):
    """if c: A...return  else: B   ->   if c: A...return ; B"""
    def _block(self, stmts):
        out = []
        for s in stmts:
            s = self.visit(s)
            if isinstance(s, ast.If) and s.orelse and s.body and isinstance(s.body[-1], (ast.Return, ast.Raise, ast.Continue, ast.Break)):
                rest, s.orelse = s.orelse, []
                out.append(s)
                out.extend(rest)
            else:
                out.append(s)
        return out

    def generic_visit(self, node):
        for fld in ('body', 'orelse', 'finalbody'):
            blk = getattr(node, fld, None)
            if isinstance(blk, list) and blk and isinstance(blk[0], ast.stmt):
                setattr(node, fld, self._block(blk))
        for h in getattr(node, 'handlers', []) or []:
            h.body = self._block(h.body)
        return node

    def visit_Lambda(self, node):
        return node


class Range0(ast.NodeTransformer):
    """range(n) -> range(0, n);  x[:k] -> x[0:k]"""
    def visit_Call(self, node):
        self.generic_visit(node)
        if isinstance(node.func, ast.Name) and node.func.id == 'range' and len(node.args) == 1 and not node.keywords:
            node.args = [ast.Constant(value=0), node.args[0]]
        return node

    def visit_Slice(self, node):
        self.generic_visit(node)
        if node.lower is None and node.upper is not None and node.step is None:
            u = node.upper
            # x[:k] = x[0:k] for every int k (negative k included)
            node.lower = ast.Constant(value=0)
        return node


class NotIn(ast.NodeTransformer):
    """a not in b -> not (a in b);  a is not b -> not (a is b);  a != b stays"""
    def visit_Compare(self, node):
        self.generic_visit(node)
        if len(node.ops) == 1 and isinstance(node.ops[0], ast.NotIn):
            return ast.UnaryOp(op=ast.Not(), operand=ast.Compare(left=node.left, ops=[ast.In()], comparators=node.comparators))
        if len(node.ops) == 1 and isinstance(node.ops[0], ast.IsNot):
            return ast.UnaryOp(op=ast.Not(), operand=ast.Compare(left=node.left, ops=[ast.Is()], comparators=node.comparators))
        return node


class Chain(ast.NodeTransformer):
    """a < b < c  ->  a < b and b < c   (b free of calls)"""
    def visit_Compare(self, node):
        self.generic_visit(node)
        if len(node.ops) == 2 and _simple(node.comparators[0]):
            import copy
            b = node.comparators[0]
            return ast.BoolOp(op=ast.And(), values=[ast.Compare(left=node.left, ops=[node.ops[0]], comparators=[b]),
                                                    ast.Compare(left=copy.deepcopy(b), ops=[node.ops[1]], comparators=[node.comparators[1]])])
        return node


class Unpack(ast.NodeTransformer):
    """a, b = x, y  ->  a = x; b = y   when the targets are plain names that no right-hand side reads"""
    def _block(self, stmts):
        out = []
        for s in stmts:
            s = self.visit(s)
            if isinstance(s, ast.Assign) and len(s.targets) == 1 and isinstance(s.targets[0], ast.Tuple) and isinstance(s.value, ast.Tuple) \
                    and len(s.targets[0].elts) == len(s.value.elts) and all(isinstance(t, ast.Name) for t in s.targets[0].elts):
                tn = {t.id for t in s.targets[0].elts}
                reads = {x.id for v in s.value.elts for x in ast.walk(v) if isinstance(x, ast.Name)}
                if not (tn & reads) and all(_simple(v) for v in s.value.elts):
                    for t, v in zip(s.targets[0].elts, s.value.elts):
                        out.append(ast.Assign(targets=[t], value=v, lineno=s.lineno))
                    continue
            out.append(s)
        return out

    def generic_visit(self, node):
        for fld in ('body', 'orelse', 'finalbody'):
            blk = getattr(node, fld, None)
            if isinstance(blk, list) and blk and isinstance(blk[0], ast.stmt):
                setattr(node, fld, self._block(blk))
        for h in getattr(node, 'handlers', []) or []:
            h.body = self._block(h.body)
        return node


class Reorder(ast.NodeTransformer):
    """swap two adjacent assignments to plain names that are independent of each other (call-free right-hand sides)"""
    def _block(self, stmts):
        stmts = [self.visit(s) for s in stmts]
        out, i = [], 0
        while i < len(stmts):
            a = stmts[i]
            b = stmts[i + 1] if i + 1 < len(stmts) else None
            if b is not None and self._indep(a, b):
                out.extend([b, a])
                i += 2
            else:
                out.append(a)
                i += 1
        return out

    @staticmethod
    def _indep(a, b):
        for s in (a, b):
            if not (isinstance(s, ast.Assign) and len(s.targets) == 1 and isinstance(s.targets[0], ast.Name) and _simple(s.value)):
                return False
        ta, tb = a.targets[0].id, b.targets[0].id
        ra = {x.id for x in ast.walk(a.value) if isinstance(x, ast.Name)}
        rb = {x.id for x in ast.walk(b.value) if isinstance(x, ast.Name)}
        return ta != tb and ta not in rb and tb not in ra

    def generic_visit(self, node):
        for fld in ('body', 'orelse', 'finalbody'):
            blk = getattr(node, fld, None)
            if isinstance(blk, list) and blk and isinstance(blk[0], ast.stmt):
                setattr(node, fld, self._block(blk))
        for h in getattr(node, 'handlers', []) or []:
            h.body = self._block(h.body)
        return node

    def visit_Lambda(self, node):
        return node

    def visit_ClassDef(self, node):
        # class bodies: only descend into methods
        node.body = [self.visit(s) if isinstance(s, (ast.FunctionDef, ast.AsyncFunctionDef, ast.ClassDef)) else s for s in node.body]
        return node

    def visit_Module(self, node):
        node.body = [self.visit(s) if isinstance(s, (ast.FunctionDef, ast.AsyncFunctionDef, ast.ClassDef)) else s for s in node.body]
        return node


class KwLast(ast.NodeTransformer):
    """f(a, b) -> f(a, y=b) for calls of a function defined exactly once at the top level of the same module (plain
    positional parameters, no decorators, name not rebound anywhere in the module)"""
    def visit_Module(self, node):
        defs = {}
        for s in node.body:
            if isinstance(s, ast.FunctionDef):
                defs.setdefault(s.name, []).append(s)
        stores = {x.id for x in ast.walk(node) if isinstance(x, ast.Name) and isinstance(x.ctx, ast.Store)} | \
                 {a.arg for a in ast.walk(node) if isinstance(a, ast.arg)}
        self.sig = {}
        for name, ds in defs.items():
            d = ds[0]
            if len(ds) == 1 and not d.decorator_list and name not in stores and not d.args.posonlyargs and not d.args.vararg:
                self.sig[name] = [a.arg for a in d.args.args]
        self.generic_visit(node)
        return node

    def visit_Call(self, node):
        self.generic_visit(node)
        if isinstance(node.func, ast.Name) and node.func.id in getattr(self, 'sig', {}) and node.args \
                and not any(isinstance(a, ast.Starred) for a in node.args) and not any(k.arg is None for k in node.keywords):
            params = self.sig[node.func.id]
            n = len(node.args)
            if n <= len(params) and params[n - 1] not in {k.arg for k in node.keywords}:
                last = node.args.pop()
                node.keywords.insert(0, ast.keyword(arg=params[n - 1], value=last))
        return node


def main():
    kind, dest = sys.argv[1], sys.argv[2]
    repo = sys.argv[3] if len(sys.argv) > 3 else '/repo'
    if os.path.exists(dest):
        shutil.rmtree(dest)
    os.makedirs(dest)
    for sub in ('pyiga', 'scripts'):
        shutil.copytree(os.path.join(repo, sub), os.path.join(dest, sub),
                        ignore=shutil.ignore_patterns('*.so', '*.c', '*.cpp', '__pycache__', 'build', '*.o'))
    T = {'rename': Rename, 'ifswap': IfSwap, 'temp': RetTemp, 'cmpflip': CmpFlip, 'nestand': NestAnd, 'testtemp': TestTemp,
         'early': Early, 'range0': Range0, 'notin': NotIn, 'chain': Chain, 'unpack': Unpack, 'reorder': Reorder, 'kwlast': KwLast}[kind]
    n = 0
    for root, _d, files in os.walk(os.path.join(dest, 'pyiga')):
        for f in files:
            if not f.endswith('.py'):
                continue
            p = os.path.join(root, f)
            text = open(p).read()
            try:
                tree = ast.parse(text)
                tree = T().visit(tree)
                ast.fix_missing_locations(tree)
                new = ast.unparse(tree)
                ast.parse(new)
            except Exception as e:
                print('skip', p, e)
                continue
            open(p, 'w').write(new + '\n')
            n += 1
    print('transformed', n, 'files ->', dest)


if __name__ == '__main__':
    main()

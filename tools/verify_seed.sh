#!/bin/bash
# usage: verify_seed.sh Cxx   (no git stash: shared between worktrees)
P=$1; WT=/tmp/wt/$P
cd $WT || exit 9
git diff -- pyiga scripts setup.py > /tmp/wt/$P.patch
echo "== $P patch lines: $(wc -l < /tmp/wt/$P.patch) files: $(git diff --stat -- pyiga scripts setup.py | tail -1)"
NEEDBUILD=$(grep -c '^+++ b/.*\.\(pyx\|pxi\|pxd\)' /tmp/wt/$P.patch)
PYTHONPATH=$WT timeout 900 /venv/bin/python demo_$P.py > /tmp/wt/$P.with.log 2>&1; W=$?
PYTHONPATH=$WT timeout 1800 /venv/bin/python -m pytest -q -p no:cacheprovider --timeout=900 -n 8 2>&1 | tail -1
git apply -R /tmp/wt/$P.patch || exit 8
if [ "$NEEDBUILD" != 0 ]; then cp /repo/pyiga/*.so $WT/pyiga/; fi
PYTHONPATH=$WT timeout 900 /venv/bin/python demo_$P.py > /tmp/wt/$P.without.log 2>&1; WO=$?
git apply /tmp/wt/$P.patch
echo "demo with change exit=$W ($(tail -1 /tmp/wt/$P.with.log))  without exit=$WO ($(tail -1 /tmp/wt/$P.without.log))  needbuild=$NEEDBUILD"

#!/bin/bash
# usage: tools/try_seed.sh [seed dir ...]   -- applies each seeded change to /repo, runs the check of its property, undoes it
cd /verif
for s in "${@:-seeded/S*}"; do
  s=${s%/}
  p=$(python3 -c "import json;print(json.load(open('$s/meta.json'))['property'])")
  if ! git -C /repo apply /verif/$s/patch.diff 2>/tmp/apply_err.txt; then echo "$s $p: patch does not apply ($(head -1 /tmp/apply_err.txt))"; continue; fi
  ./check $p --no-write > /tmp/seed_out.txt 2>&1; code=$?
  git -C /repo checkout -- .
  echo "$s $p exit=$code violations=$(grep -c '^VIOLATION' /tmp/seed_out.txt)"
  grep -E '^pyiga|ANALYSIS' /tmp/seed_out.txt | cut -c1-260 | head -3
done
git -C /repo status --short | head -2
